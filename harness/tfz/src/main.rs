//! Storage images around drop_in_place for Threefish in the `--no-default-features --features zeroize`
//! build (C16).  Same event format as `drv zeroize`; TLC classifies the offsets.
use serde_json::json;
use std::alloc::{Layout, alloc, dealloc};
use std::io::Write;

static mut FILL: u8 = 0;
#[inline(never)]
fn scrub() {
    let fill = unsafe { FILL };
    let mut a = [0u8; 192 * 1024];
    for b in a.iter_mut() {
        *b = fill;
    }
    std::hint::black_box(&mut a);
}

fn probe<T>(make: impl FnOnce() -> T, fill: u8) -> (usize, Vec<u8>, Vec<u8>) {
    let size = core::mem::size_of::<T>();
    let layout = Layout::new::<T>();
    unsafe {
        FILL = fill;
        let val = make();
        let p = alloc(layout);
        core::ptr::write_bytes(p, fill, size);
        core::ptr::write(p as *mut T, val);
        let before = core::slice::from_raw_parts(p, size).to_vec();
        core::ptr::drop_in_place(p as *mut T);
        let after = core::slice::from_raw_parts(p, size).to_vec();
        dealloc(p, layout);
        (size, before, after)
    }
}

fn splitmix(s: &mut u64) -> u64 {
    *s = s.wrapping_add(0x9E37_79B9_7F4A_7C15);
    let mut z = *s;
    z = (z ^ (z >> 30)).wrapping_mul(0xBF58_476D_1CE4_E5B9);
    z = (z ^ (z >> 27)).wrapping_mul(0x94D0_49BB_1331_11EB);
    z ^ (z >> 31)
}

macro_rules! run_type {
    ($w:expr, $name:expr, $t:ty, $n:expr, $seed:expr) => {{
        for route in ["new", "clone"] {
            writeln!($w, "{}", json!({"ev":"reset","run":0,"cfg":"threefish-nocipher-z","prof":"dev","what":$name})).unwrap();
            let mut s = $seed;
            let mut keys: Vec<[u8; $n]> = vec![[0u8; $n], [0xFFu8; $n]];
            let mut k = [0u8; $n];
            for b in k.iter_mut() { *b = splitmix(&mut s) as u8; }
            keys.push(k);
            for (ki, key) in keys.iter().enumerate() {
                let tweak = [ki as u8 + 1; 16];
                for fill in [0x11u8, 0xEEu8] {
                    for rep in 0..2 {
                        let (size, before, after) = if route == "new" {
                            probe(|| { scrub(); <$t>::new_with_tweak(key, &tweak) }, fill)
                        } else {
                            probe(|| { let o = <$t>::new_with_tweak(key, &tweak); scrub(); o.clone() }, fill)
                        };
                        writeln!($w, "{}", json!({"ev":"zimg","type":$name,"route":route,"arm":"default","ki":ki,"fill":fill,"rep":rep,
                            "size":size,"before":before,"after":after,"outcome":"ok"})).unwrap();
                    }
                }
            }
            writeln!($w, "{}", json!({"ev":"zend","type":$name,"route":route,"nkeys":keys.len(),"klen":$n,"zeroize":true})).unwrap();
            writeln!($w, "{}", json!({"ev":"end","run":0})).unwrap();
        }
    }};
}

fn main() {
    let args: Vec<String> = std::env::args().collect();
    let mut out_path = None;
    let mut seed = 1u64;
    let mut i = 1;
    while i < args.len() {
        match args[i].as_str() {
            "--out" => { out_path = args.get(i + 1).cloned(); i += 1; }
            "--seed" => { seed = args.get(i + 1).and_then(|s| s.parse().ok()).unwrap_or(1); i += 1; }
            _ => {}
        }
        i += 1;
    }
    let mut w: Box<dyn Write> = match out_path {
        Some(p) => Box::new(std::io::BufWriter::new(std::fs::File::create(p).unwrap())),
        None => Box::new(std::io::stdout()),
    };
    run_type!(w, "Threefish256", threefish::Threefish256, 32, seed);
    run_type!(w, "Threefish512", threefish::Threefish512, 64, seed);
    run_type!(w, "Threefish1024", threefish::Threefish1024, 128, seed);
    w.flush().unwrap();
}
