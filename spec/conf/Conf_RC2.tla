------------------------------ MODULE Conf_RC2 ------------------------------
EXTENDS RC2, Json, IOUtils
VARIABLES tpos, inst
Rec == ndJsonDeserialize(IOEnv.TRACE)
OSched(t, k, x) == RC2Sched(t, k, x)
OEnc(ks, b) == RC2Enc(ks, b)
ODec(ks, b) == RC2Dec(ks, b)
ExtraKinds == {}
INSTANCE ConfBase
=============================================================================
