"""Per-property check plans (DESIGN.md section 5).  Every verdict is a TLC verdict on a trace or model."""
import os
from .common import *
from .engine import Check, conf_mod, merge_by_run, split_by_family, renumber, API_MOD, API_CFG
from . import build, tlc, scen

Q, T = "quick", "thorough"

# family -> (types selector kwargs)
L2_FAMS = {
    "C02": ["AES"],
    "C05": ["DES"],
    "C06": ["ARIA", "Camellia", "SM4"],
    "C07": ["Kuznyechik", "Magma", "Belt"],
    "C08": ["Serpent", "Twofish", "Cast6"],
    "C09": ["Blowfish", "Cast5", "Idea", "RC2", "Xtea"],
    "C10": ["RC5", "Speck", "Threefish", "Gift"],
}
# AES / Kuznyechik / Serpent native configuration matrix (shadow configurations are added by shadow.py)
AES_CFGS = [("default", {}), ("aes-compact", {}), ("aes-soft", {}), ("aes-soft-compact", {}),
            ("aes-detect-off", {"force_off": 1}), ("native", {})]
KUZ_CFGS = [("default", {}), ("kuz-soft", {}), ("kuz-compact", {}), ("native", {})]
SERPENT_CFGS = [("default", {}), ("serpent-loop", {})]

ASSUME_COMMON = [
    "TLC (tla2tools 1.8.0) evaluates the specifications correctly",
    "the driver (harness/drv) records arguments and results of the real calls faithfully; it never judges",
    "data dimension (keys, blocks) is sampled: seeded random plus corner classes; structural dimensions named in `rule` are enumerated",
]


def shadow_cfgs(fams):
    """Builds the shadow configurations relevant to `fams` (from the current /repo tree) and returns [(id, family)]."""
    from . import shadow
    out = []
    for sid, fam in (("aes-fix32", "AES"), ("aes-fix32-compact", "AES"), ("aes-armv8", "AES"), ("kuz-neon", "Kuznyechik")):
        if fam in fams:
            shadow.build_shadow(sid)
            out.append((sid, fam))
    return out


def cost_conf(fam):
    w = {"Blowfish": 40, "Kuznyechik": 8, "Serpent": 6, "Threefish": 6, "Gift": 6}.get(fam, 1)

    def cost(run):
        return sum(w * 3 if e.get("ev") in ("new",) or (e.get("ev") == "bc" and e.get("fn") in ("expand", "salted")) else
                   (len(e.get("in", [])) if e.get("ev") == "blocks" else 1) for e in run)
    return cost


def have_fam(fam):
    return os.path.exists(conf_mod(fam)[0]) and os.path.exists(os.path.join(SPEC, "kat", f"{fam}.ndjson"))


# ------------------------------------------------------------------------------------------ L2 properties
def spec_generated_inputs(c, fams, seed):
    """Inputs that TLC constructs from the L2 modules so that an internal state of the cipher takes a chosen value
    (spec/gen): BelT blocks whose Lai-Massey word e is 0 / ~0 / 1 / 2^31 in a chosen round (both directions), Kuznyechik
    keys whose round-key pairs are equal, share an aligned 32-bit word, or contain a zero / all-ones key.
    Returns the path of the inputs file for the conf driver (None if no generator exists for these families)."""
    lines = []
    if "Belt" in fams:
        for g in tlc.generate_inputs("Gen_Belt", seed, os.path.join(c.work, "gen-belt")):
            lines.append({"type": "BeltBlock", "key": g["key"], "enc": [g["enc_block"]], "dec": [g["dec_block"]]})
    if "Kuznyechik" in fams:
        rnd = __import__("random").Random(seed)
        for g in tlc.generate_inputs("Gen_Kuznyechik", seed, os.path.join(c.work, "gen-kuz")):
            blocks = [[rnd.randrange(256) for _ in range(16)] for _ in range(2)]
            for ty in ("Kuznyechik", "KuznyechikEnc", "KuznyechikDec"):
                lines.append({"type": ty, "key": g["key"], "enc": blocks[:1], "dec": blocks[1:]})
    if not lines:
        return None
    path = os.path.join(c.work, "spec-inputs-" + "-".join(sorted(fams)) + ".ndjson")
    # group by type: one run per type in the driver
    lines.sort(key=lambda l: l["type"])
    with open(path, "w") as f:
        for l in lines:
            f.write(json.dumps(l) + "\n")
    c.notes.setdefault("spec_generated_inputs", 0)
    c.notes["spec_generated_inputs"] += len(lines)
    return path


def conformance(pid, tier, seed):
    c = Check(pid, tier, seed)
    fams = L2_FAMS[pid]
    missing = [f for f in fams if not have_fam(f)]
    if missing:
        raise ToolError(f"L2 specification missing for {missing}")
    thorough = tier == T
    for fam in fams:
        c.kat(fam)
        mod, cfg = conf_mod(fam)
        cfgs = [("default", {})]
        if fam == "AES":
            cfgs = AES_CFGS + [(sid, {}) for sid, _ in shadow_cfgs(("AES",))]
        elif fam == "Kuznyechik":
            cfgs = KUZ_CFGS + [(sid, {}) for sid, _ in shadow_cfgs(("Kuznyechik",))]
        elif fam == "Serpent":
            cfgs = SERPENT_CFGS
        # per-family effort (TLC cost per key schedule differs by orders of magnitude)
        if fam == "Blowfish":
            kw = dict(keys=40 if thorough else 2, blocks=5 if thorough else 2, lens="all")
        elif fam in ("Serpent", "Kuznyechik", "Threefish", "Gift"):
            kw = dict(keys=80 if thorough else 4, blocks=10 if thorough else 3, lens="all")
        elif fam == "RC2":
            kw = dict(keys=16 if thorough else 2, blocks=5 if thorough else 2, lens="all")
        elif fam == "RC5":
            kw = dict(keys=120 if thorough else 10, blocks=10 if thorough else 4, lens="all")
        elif fam == "AES":
            kw = dict(keys=200 if thorough else 6, blocks=12 if thorough else 3, lens="all")
        else:
            kw = dict(keys=400 if thorough else 10, blocks=12 if thorough else 4, lens="all")
        if fam == "Idea":
            # the inverse mod 2^16 + 1 behind the decryption subkeys: a seeded slice of its domain per run, all of it when thorough
            kw["sweep16"] = 65536 if thorough else 4096
        gen_path = spec_generated_inputs(c, {fam}, seed)
        if gen_path:
            kw["inputs"] = gen_path
        evs = []
        for i, (cfg_id, extra) in enumerate(cfgs):
            k = dict(kw)
            k.update(extra)
            e = c.drive(cfg_id, "conf", family=fam, **k)
            evs += renumber(e, i * 10_000_000)
        c.validate(evs, mod, cfg, f"conf-{fam}", what=f"{fam} conformance", cost=cost_conf(fam),
                   shards=14 if fam in ("Blowfish", "Serpent") or thorough else 8)
        if fam == "DES":
            # spec-level: complementation, parity-insensitivity and the weak-key structure hold in DES.tla itself
            c.model_check("sanity/DesWeakSanity.tla", "sanity/DesWeakSanity.cfg", "DesSanity", workers=2, timeout=600)
            # key relations of C05 (parity, complementation, EDE collapse, two-key = three-key) through the L1 key class
            rel = c.drive("default", "desrel", keys=60 if thorough else 10)
            c.validate(rel, API_MOD, API_CFG, "desrel", what="DES/TDES key relations")
        if fam == "Belt":
            wb = c.drive("default", "wblock", maxlen=48 if not thorough else 100, extra=1 if not thorough else 6,
                         keys=1 if not thorough else 3, minlen=28)
            c.validate(wb, mod, cfg, "belt-raw", what="belt_block_raw / wblock conformance")
    rule = ("every enc/dec/blocks event (incl. every lane of multi-block calls, Enc/Dec halves, converted instances) of the listed "
            "families must equal the value the bit-precise TLA+ specification computes; keys/blocks: corner classes + seeded random; "
            "key lengths: all accepted lengths" +
            "; distinct_nontrivial = distinct (type,key,dir,block) outside {zero key, zero block}")
    return c.finish(rule, ASSUME_COMMON + ["pinned tables (S-boxes, P/S arrays) are transcribed into the specs and validated by the published vectors in spec/kat"])


def c14(tier, seed):
    c = Check("C14", tier, seed)
    c.kat("Blowfish")
    mod, cfg = conf_mod("Blowfish")
    thorough = tier == T
    # spec -> impl: TLC enumerates all call sequences of the eksblowfish sub-machine up to the bound
    r = c.model_check("Eks_MC.tla", "Eks_MC.cfg", "Eks_MC", workers=4, timeout=600, must_cover=("Expand", "Salted", "Encrypt"))
    scen_path = os.path.join(c.work, "eks-scenarios.ndjson")
    n = scen.extract(r.out, scen_path, limit=(1500 if thorough else 60), seed=seed)
    evs = c.drive("default", "bcrypt", scenarios=scen_path)
    evs += renumber(c.drive("default", "bcrypt", n=6 if not thorough else 120, steps=4 if not thorough else 6,
                            cost=1 if not thorough else 3), 10_000_000)
    c.notes["tlc_generated_scenarios"] = n
    c.samples.append({"tlc_generated_scenario": read_ndjson(scen_path)[min(5, n - 1)]})
    c.validate(evs, mod, cfg, "eks", what="eksblowfish state machine", cost=cost_conf("Blowfish"), shards=14)
    rule = ("call sequences over {expand(k1|k2), salted(s1|s2,k1|k2), encrypt}: all sequences up to the bound enumerated by TLC "
            "(Eks_MC) and a seeded subset replayed against the real code + seeded random sequences; the trace spec carries the full "
            "<<P,S>> state of the reference algorithm along the history and compares every bc_encrypt / block-cipher probe")
    return c.finish(rule, ASSUME_COMMON)


def c17(tier, seed):
    c = Check("C17", tier, seed)
    c.kat("AES")
    r = c.model_check("AES_Haz_MC.tla", "AES_Haz_MC.cfg", "AES_Haz_MC", workers=4, timeout=600)
    mod, cfg = conf_mod("AES")
    evs = []
    for i, (cfg_id, extra) in enumerate(AES_CFGS + [(sid, {}) for sid, _ in shadow_cfgs(("AES",))]):
        if cfg_id == "aes-compact":
            continue
        e = c.drive(cfg_id, "hazmat", n=12000 if tier == T else 30, **extra)
        evs += renumber(e, i * 10_000_000)
    c.validate(evs, mod, cfg, "haz", what="AES hazmat round functions")
    rule = ("haz events (cipher_round, equiv_inv_cipher_round, mix_columns, inv_mix_columns, 8-block parallel forms with 8 independent "
            "keys) must equal the FIPS-197 transformations of AES.tla; spec-level: InvMixColumns o MixColumns = id on the 4x256 "
            "single-byte-column basis, InvSubBytes o SubBytes = id on all 256 bytes (AES_Haz_MC, exhaustive)")
    return c.finish(rule, ASSUME_COMMON)


def c18(tier, seed):
    c = Check("C18", tier, seed)
    c.kat("Belt")
    mod, cfg = conf_mod("Belt")
    thorough = tier == T
    evs = c.drive("default", "wblock", maxlen=160 if thorough else 72, extra=8 if thorough else 2, keys=3 if thorough else 1,
                  big=3 if thorough else 1)
    c.validate(evs, mod, cfg, "wblock-l2", what="belt-wblock conformance", cost=lambda run: sum(len(e.get("in", [])) ** 2 // 256 + 1 for e in run))
    # the crate's optional features are build configurations too (feature-gated code inside the wide-block functions)
    for j, cfg_id in enumerate(("feat-all", "feat-min", "native", "native-z")):
        fe = c.drive(cfg_id, "wblock", maxlen=100 if thorough else 56, extra=4 if thorough else 1, keys=1, seed=seed + 7 + j, minlen=30)
        c.validate(fe, mod, cfg, f"wblock-l2-{cfg_id}", what=f"belt-wblock conformance ({cfg_id})",
                   cost=lambda run: sum(len(e.get("in", [])) ** 2 // 256 + 1 for e in run))
    # L1 view of the same trace: both compositions are inverse, rejection leaves the buffer untouched
    evs2 = c.drive("default", "wblock", maxlen=160 if thorough else 100, extra=20 if thorough else 4, keys=4 if thorough else 2,
                   seed=seed + 1, big=12 if thorough else 3)
    c.validate(evs2, API_MOD, API_CFG, "wblock-l1", what="belt-wblock inverse / rejection")
    c.exhaustive = False
    rule = ("wblock events for every length 0..maxlen (all lengths < 32: rejection with buffer unchanged; all lengths >= 32 up to the "
            "bound incl. non-multiples of 16) plus sampled lengths up to 1024, both directions and both compositions; "
            "bit-exact against Belt.tla and bijection-consistent in API_Trace")
    return c.finish(rule, ASSUME_COMMON)


# ------------------------------------------------------------------------------------------ L1 properties
def all_configs_for_roundtrip():
    return [("default", {}, None),
            ("aes-soft", {}, "AES"), ("aes-soft-compact", {}, "AES"), ("aes-compact", {}, "AES"),
            ("aes-detect-off", {"force_off": 1}, "AES"),
            ("kuz-soft", {}, "Kuznyechik"), ("kuz-compact", {}, "Kuznyechik"), ("serpent-loop", {}, "Serpent"), ("native", {}, None)]


def c01(tier, seed):
    c = Check("C01", tier, seed)
    thorough = tier == T
    c.model_check("MC_API.tla", "MC_API.cfg" if thorough else "MC_API_quick.cfg", "MC_API", workers=8, timeout=1500)
    c.model_check("MC_API.tla", "MC_API_full.cfg" if thorough else "MC_API_full_quick.cfg", "MC_API_full", workers=12, timeout=2400)
    if thorough:
        # extra (not needed for the verdict): TLAPS proves that every round shape used by the ciphers is invertible for an
        # arbitrary round function (spec/proofs/RoundInverse.tla)
        c.notes["tlaps_round_inverse_lemmas"] = tlc.tlaps_check(os.path.join(SPEC, "proofs", "RoundInverse.tla"), os.path.join(c.work, "tlaps"))
    evs = []
    for i, (cfg_id, extra, fam) in enumerate(all_configs_for_roundtrip() + [(sid, {}, fam) for sid, fam in shadow_cfgs(("AES", "Kuznyechik"))]):
        kw = dict(keys=30 if thorough else 3, blocks=8 if thorough else 2, lens="all" if thorough else "few")
        if fam:
            kw["family"] = fam
        if cfg_id == "default":
            kw["sweep16"] = 65536 if thorough else 8192     # IDEA subkey inversion domain (see conformance)
        kw.update(extra)
        evs += renumber(c.drive(cfg_id, "roundtrip", **kw), i * 10_000_000)
    c.validate(evs, API_MOD, API_CFG, "rt", what="round trip")
    gen_path = spec_generated_inputs(c, {"Belt", "Kuznyechik"}, seed)
    ge = []
    for i, cfg_id in enumerate(("default", "kuz-soft", "kuz-compact", "native")):
        ge += renumber(c.drive(cfg_id, "roundtrip", family="Belt,Kuznyechik", inputs=gen_path, only_inputs=1), i * 10_000_000)
    c.validate(ge, API_MOD, API_CFG, "rt-gen", what="round trip on specification-generated inputs")
    wb = c.drive("default", "wblock", minlen=32, maxlen=96 if not thorough else 200, extra=4 if not thorough else 30, keys=2,
                 big=3 if not thorough else 12)
    c.validate(wb, API_MOD, API_CFG, "rt-wblock", what="wblock round trip")
    for cfg_id in ("feat-all", "feat-min", "native"):
        wf = c.drive(cfg_id, "wblock", minlen=32, maxlen=80 if not thorough else 160, extra=2 if not thorough else 10, keys=1, big=1)
        c.validate(wf, API_MOD, API_CFG, f"rt-wblock-{cfg_id}", what=f"wblock round trip ({cfg_id})")
    rule = ("per key: enc(b)->c, dec(c), dec(b)->p, enc(p) through single-block and multi-block entry points, Enc/Dec halves joined "
            "through From, Threefish tweak/u64 constructors, wblock both compositions; accepted iff consistent with one learned "
            "partial bijection per key class (no L2 oracle); every catalogue type x accepted key lengths (" +
            ("all" if thorough else "boundary subset") + ") x backends")
    return c.finish(rule, ASSUME_COMMON)


def c03(tier, seed):
    c = Check("C03", tier, seed)
    thorough = tier == T
    kw = dict(keys=24 if thorough else 3, blocks=6 if thorough else 2)
    groups = [("AES", AES_CFGS + [(sid, {}) for sid, _ in shadow_cfgs(("AES",))]),
              ("Kuznyechik", KUZ_CFGS + [(sid, {}) for sid, _ in shadow_cfgs(("Kuznyechik",))]), ("Serpent", SERPENT_CFGS)]
    for fam, cfgs in groups:
        traces = []
        for cfg_id, extra in cfgs:
            k = dict(kw)
            k.update(extra)
            traces.append((cfg_id, c.drive(cfg_id, "conf", family=fam, **k)))
        merged = merge_by_run(traces)
        c.validate(merged, API_MOD, API_CFG, f"x-{fam}", what=f"{fam} across configurations")
    # feature independence: all crates, minimal vs all features (+ zeroize)
    traces = []
    for cfg_id in ("feat-min", "default", "feat-all", "native"):
        traces.append((cfg_id, c.drive(cfg_id, "conf", keys=3 if thorough else 2, blocks=2)))
    c.validate(merge_by_run(traces), API_MOD, API_CFG, "x-feat", what="feature independence")
    traces = [(cfg_id, c.drive(cfg_id, "wblock", minlen=32, maxlen=80 if not thorough else 200, extra=2 if not thorough else 12, keys=1, big=1))
              for cfg_id in ("feat-min", "default", "feat-all", "native", "native-z")]
    c.validate(merge_by_run(traces), API_MOD, API_CFG, "x-feat-wblock", what="feature independence (wblock)")
    rule = ("the same seeded scenario script is executed by every configuration's binary; run k of all configurations is merged under "
            "one learned permutation per key class, so any two configurations disagreeing on any (key, block) are rejected; batch lanes "
            "share a common prefix across parallel widths")
    return c.finish(rule, ASSUME_COMMON)


def c04(tier, seed):
    c = Check("C04", tier, seed)
    thorough = tier == T
    c.model_check("MC_Blocks.tla", "MC_Blocks.cfg", "MC_Blocks", workers=4, timeout=600, must_cover=("ParChunk", "TailStep"))
    evs = []
    cfgs = [("default", {}, None), ("aes-soft", {}, "AES"), ("aes-soft-compact", {}, "AES"),
            ("aes-detect-off", {"force_off": 1}, "AES"), ("kuz-soft", {}, "Kuznyechik"), ("kuz-compact", {}, "Kuznyechik"),
            ("native", {}, "AES,Kuznyechik")]
    cfgs += [(sid, {}, fam) for sid, fam in shadow_cfgs(("AES", "Kuznyechik"))]
    for i, (cfg_id, extra, fam) in enumerate(cfgs):
        kw = dict(mult=4 if thorough else 2, random=8 if thorough else 1)
        if thorough and fam:
            kw["offsets"] = "all"
        if fam:
            kw["family"] = fam
        kw.update(extra)
        evs += renumber(c.drive(cfg_id, "batch", **kw), i * 10_000_000)
    c.validate(evs, API_MOD, API_CFG, "batch", what="multi-block call")
    c.exhaustive = False
    rule = ("for every type x backend: n = 0..mult*par+2 (par read from the backend), shapes in-place/b2b/inout, byte offsets 0..15, "
            "contents {all distinct in every byte, all equal, differing in one byte other than byte 0, random}; every lane input is also "
            "observed through the single-block call (obligation checked by the trace spec), lanes must agree with it; input unchanged, "
            "guard zones intact, NotEqualError iff lengths differ and then nothing written; direct par/tail backend calls; "
            "bounded model MC_Blocks: all n <= 2*par+1 for par in {1,2,3}")
    return c.finish(rule, ASSUME_COMMON)


def c11(tier, seed):
    c = Check("C11", tier, seed)
    evs = c.drive("default", "lengths", maxlen=300)
    if tier == T:
        evs += renumber(c.drive("default", "lengths", maxlen=300, seed=seed + 7), 10_000_000)
        evs += renumber(c.drive("default", "lengths", maxlen=1100, types="Rc2,Blowfish,Serpent,Cast5,Twofish,Aes128", seed=seed + 8), 20_000_000)
    c.validate(evs, API_MOD, API_CFG, "len", what="key-length contract")
    c.exhaustive = True
    rule = ("EXHAUSTIVE over the length dimension: every catalogue type x every slice length 0..=300: Ok iff length in KeyLens[type], "
            "otherwise InvalidLength, never a panic; for accepted lengths: array constructor vs slice, Rc2 slice vs eff=8*len, "
            "CAST5(>80 bit)/CAST6/Serpent short key vs explicit padding, observed on probe blocks in one key class (Catalogue!Class)")
    return c.finish(rule, ASSUME_COMMON)


def c12(tier, seed):
    c = Check("C12", tier, seed)
    thorough = tier == T
    r = c.model_check("MC_API.tla", "MC_API.cfg" if thorough else "MC_API_quick.cfg", "MC_API", workers=8, timeout=1500,
                      must_cover=("New", "Clone", "FromEnc", "Enc", "Dec", "Drop"))
    # complete abstract state space (VIEW without the operation counter): invariants after sequences of any length
    c.model_check("MC_API.tla", "MC_API_full.cfg" if thorough else "MC_API_full_quick.cfg", "MC_API_full", workers=12, timeout=2400)
    scen_path = os.path.join(c.work, "api-scenarios.ndjson")
    n = scen.extract(r.out, scen_path, limit=(4000 if thorough else 400), seed=seed)
    c.notes["tlc_generated_scenarios"] = n
    c.samples.append({"tlc_generated_scenario": read_ndjson(scen_path)[min(7, n - 1)]})
    evs = []
    plan = [("default", "Aes128,Aes192,Aes256,Kuznyechik"), ("aes-detect-off", "Aes128,Aes256"), ("aes-soft", "Aes192"),
            ("kuz-soft", "Kuznyechik"), ("kuz-compact", "Kuznyechik")]
    plan += [(sid, "Aes128,Aes192,Aes256" if fam == "AES" else "Kuznyechik") for sid, fam in shadow_cfgs(("AES", "Kuznyechik"))]
    for i, (cfg_id, profs) in enumerate(plan):
        evs += renumber(c.drive(cfg_id, "replay", scenarios=scen_path, profiles=profs,
                                limit=(n if thorough else 150)), i * 10_000_000)
    c.validate(evs, API_MOD, API_CFG, "replay", what="TLC-generated conversion/clone scenario")
    # clone for every Clone type + random walks with conversions
    walks = []
    for i, (cfg_id, extra, fam) in enumerate([("default", {}, None), ("aes-detect-off", {"mix_arms": 1}, "AES"),
                                              ("aes-soft", {}, "AES"), ("kuz-soft", {}, "Kuznyechik")]):
        kw = dict(steps=40 if thorough else 16, walks=4 if thorough else 1)
        if fam:
            kw["family"] = fam
        kw.update(extra)
        walks += renumber(c.drive(cfg_id, "api", **kw), (i + 10) * 10_000_000)
    c.validate(walks, API_MOD, API_CFG, "walk", what="random history with clones/conversions")
    # systematic clone / conversion sweep: every type x accepted key length (x extra-argument constructors)
    sweep = []
    for i, (cfg_id, extra, fam) in enumerate([("default", {}, None), ("aes-detect-off", {"force_off": 1}, "AES"),
                                              ("aes-soft", {}, "AES"), ("aes-soft-compact", {}, "AES"),
                                              ("kuz-soft", {}, "Kuznyechik"), ("kuz-compact", {}, "Kuznyechik")]
                                             + [(sid, {}, fam) for sid, fam in shadow_cfgs(("AES", "Kuznyechik"))]):
        kw = dict(keys=4 if thorough else 2, lens="all")
        if fam:
            kw["family"] = fam
        kw.update(extra)
        sweep += renumber(c.drive(cfg_id, "clones", **kw), (i + 20) * 10_000_000)
    c.validate(sweep, API_MOD, API_CFG, "clones", what="clone/conversion sweep")
    # Enc / Dec / combined instances on keys whose round keys are in a constructed relation (spec/gen/Gen_Kuznyechik)
    gen_path = spec_generated_inputs(c, {"Kuznyechik"}, seed)
    ge = []
    for i, cfg_id in enumerate(("default", "kuz-soft", "kuz-compact", "native")):
        ge += renumber(c.drive(cfg_id, "conf", family="Kuznyechik", inputs=gen_path, only_inputs=1), (i + 60) * 10_000_000)
    c.validate(ge, API_MOD, API_CFG, "gen-kuz", what="Enc/Dec/combined agreement on specification-generated keys")
    rule = ("clone sweep: every Clone type x EVERY accepted key length x {instance, clone, clone of clone, From<&Enc>, From<Enc>, "
            "clone of converted}, observed before and after the source is dropped; all chains of {new(enc|dec|both), From<Enc>, From<&Enc>, clone, clone of converted, drop of source, enc/dec} within the "
            "bound are enumerated by TLC on MC_API; one scenario per transition (shortest path + edge) is replayed for the AES sizes "
            "and Kuznyechik on every backend incl. both union arms; after every step every live instance is observed and must agree "
            "with its key class, and with a fresh instance at the end; seeded random walks cover Clone for every Clone type")
    return c.finish(rule, ASSUME_COMMON)


def c13(tier, seed):
    c = Check("C13", tier, seed)
    thorough = tier == T
    if have_fam("DES"):
        c.model_check("sanity/DesWeakSanity.tla", "sanity/DesWeakSanity.cfg", "DesWeakSanity", workers=2, timeout=600)
    kw = dict(random=3000 if thorough else 40)
    if thorough:
        kw["parity"] = "all"
    evs = c.drive("default", "weak", **kw)
    c.validate(evs, API_MOD, API_CFG, "weak", what="weak-key screening")
    c.exhaustive = False
    rule = ("weak events: AES - zero key, every single-nonzero-byte / single-bit key at every byte position for the three sizes, zero "
            "upper half and near misses; DES - the 64 listed keys x parity masks (" + ("all 256" if thorough else "6") +
            "), single-key-bit neighbours (must pass); TDES - weak part in each position, equal parts in each pair with and without "
            "parity differences, near misses; every other type: corner + random keys never fail; new_checked == weak_key_test and "
            "otherwise the same class as new (observed). DES table sanity: each listed key yields 1/2/4 distinct round keys under DES.tla")
    return c.finish(rule, ASSUME_COMMON)


def c15(tier, seed):
    c = Check("C15", tier, seed)
    thorough = tier == T
    c.model_check("Detect.tla", "Detect.cfg", "Detect", workers=8, timeout=1200, must_cover=("Load", "Detect", "Store", "Send"))
    c.model_check("MC_API.tla", "MC_API_full.cfg" if thorough else "MC_API_full_quick.cfg", "MC_API_full", workers=12, timeout=2400)
    if thorough:
        # extra (not needed for the verdict): Apalache discharges an inductive invariant of the detection protocol, i.e. ArmStable
        # for behaviours of any length (data sizes bounded by the generators)
        ap = tlc.apalache_inductive(os.path.join(SPEC, "apalache", "Detect_Ind.tla"), os.path.join(c.work, "apalache"))
        c.notes["apalache_inductive_invariant_Detect"] = ap
        if "error" in ap.values():
            raise ToolError(f"Apalache refutes the inductive invariant of Detect_Ind.tla: {ap}")
    evs = c.drive("default", "api", steps=60 if thorough else 20, walks=3 if thorough else 1)
    evs += renumber(c.drive("aes-detect-off", "api", family="AES", mix_arms=1, steps=80 if thorough else 40, walks=12 if thorough else 5), 10_000_000)
    c.validate(evs, API_MOD, API_CFG, "hist", what="history independence")
    # state inside an instance: many uses of one instance (few distinct inputs, so every repetition must repeat the first answer)
    lu = c.drive("default", "longuse", calls=3000 if thorough else 600)
    lu += renumber(c.drive("aes-soft", "longuse", family="AES", calls=3000 if thorough else 600), 10_000_000)
    lu += renumber(c.drive("kuz-soft", "longuse", family="Kuznyechik", calls=3000 if thorough else 600), 20_000_000)
    c.validate(lu, API_MOD, API_CFG, "longuse", what="many uses of one instance")
    # process-global state: the same observations in differently ordered processes must agree
    for cfg_id in ("default", "dev-soft", "dev-compact"):
        traces = [(f"{cfg_id}#{perm}", c.drive(cfg_id, "order", perm=perm, keys=3 if thorough else 2)) for perm in (0, 1, 7 + seed, 99 + seed)]
        c.validate(split_by_family(merge_by_run(traces)), API_MOD, API_CFG, f"order-{cfg_id}", what=f"order independence across processes ({cfg_id})")
    # fresh processes: the first AES use races on the detection cache
    nproc = 200 if thorough else 10
    tevs = []
    for i in range(nproc):
        fams = "AES,Kuznyechik" if i % 3 else "AES,Kuznyechik,Serpent,DES,Blowfish,Twofish,Camellia,Magma,Threefish"
        e = c.drive("default" if i % 4 else "aes-soft", "threads", threads=2 + (i * 5) % 15, iters=3 if not thorough else 6,
                    family=fams, seed=seed * 1000 + i)
        tevs += renumber(e, (i + 20) * 10_000_000)
    c.validate(tevs, API_MOD, API_CFG, "threads", what="concurrent use")
    c.notes["fresh_process_thread_runs"] = nproc
    rule = ("(a) random histories over up to 6 live instances per family (construct/clone/convert/single/multi-block/drop, both AES "
            "union arms mixed in one process) with every live instance observed after every step; (b) fresh-process runs with 2..16 "
            "threads started on a barrier: per-thread construction (first use races on CPU-feature detection), instances handed over "
            "between threads, one shared &cipher used by all; the merged, order-insensitive trace must be explained by one permutation "
            "per key class; (c) Detect.tla: all interleavings of the lazy-init protocol under a non-SC (per-location coherence) memory model")
    return c.finish(rule, ASSUME_COMMON + ["real-thread schedules are sampled; exhaustiveness is at the protocol model only"])


def c16(tier, seed):
    c = Check("C16", tier, seed)
    thorough = tier == T
    evs = []
    plan = [("feat-all", {}, None), ("soft-z", {}, "AES,Kuznyechik"), ("compact-z", {}, "AES,Kuznyechik"), ("native-z", {}, "AES,Kuznyechik"),
            ("aes-detect-off-z", {"force_off": 1}, "AES")]
    from . import shadow
    for sid, fam in (("aes-fix32-z", "AES"), ("aes-armv8-z", "AES"), ("kuz-neon-z", "Kuznyechik")):
        shadow.build_shadow(sid)
        plan.append((sid, {}, fam))
    for i, (cfg_id, extra, fam) in enumerate(plan):
        kw = dict(keys=10 if thorough else 3, lens="all" if thorough else "few")
        if fam:
            kw["family"] = fam
        kw.update(extra)
        evs += renumber(c.drive(cfg_id, "zeroize", **kw), i * 10_000_000)
    # Threefish without its default `cipher` feature (inherent API only) but with zeroize
    exe = build.build_tfz()
    tf = os.path.join(c.work, "tfz.ndjson")
    p = run([exe, "--out", tf, "--seed", str(seed)], check=False, timeout=300)
    tfe = read_ndjson(tf) if p.returncode == 0 else [{"ev": "abort", "rc": p.returncode, "cfg": "tfz"}]
    c.configs.add("threefish-nocipher-z")
    evs += renumber(tfe, 90 * 10_000_000)
    # control: without the feature the key material must survive the drop (the probe sees it)
    evs += c.drive("feat-min", "zeroize", keys=3, lens="few", family="AES,DES,Kuznyechik,Blowfish,Threefish,RC5,Twofish")
    c.validate(evs, API_MOD, API_CFG, "zero", what="erasure on drop", shards=14)
    rule = ("zimg events: storage image before/after drop_in_place for every type x route {new, clone, From<&Enc>, From<Enc>, clone of "
            "converted} x backend (incl. soft union arm) x >= 3 keys x 2 fill patterns x 2 repetitions; TLC classifies offsets: "
            "key-dependent = deterministic per key and different between keys; all of them must read 0 after the drop; control build "
            "without zeroize must show surviving key bytes (vacuity guard)")
    return c.finish(rule, ASSUME_COMMON + ["only the instance's own storage (size_of::<T>() bytes) is observed, as the property states"])


def c19(tier, seed):
    c = Check("C19", tier, seed)
    nk = 64 if tier == T else 4
    evs = c.drive("default", "names", keys=nk)
    c.validate(evs, API_MOD, API_CFG, "names", what="Debug/AlgorithmName")
    # the texts are written separately per backend module: every backend's impls are exercised
    plan = [("aes-soft", {}, "AES"), ("aes-soft-compact", {}, "AES"), ("aes-compact", {}, "AES"),
            ("aes-detect-off", {"force_off": 1}, "AES"), ("kuz-soft", {}, "Kuznyechik"), ("kuz-compact", {}, "Kuznyechik"),
            ("serpent-loop", {}, "Serpent"), ("feat-all", {}, None)]
    plan += [(sid, {}, fam) for sid, fam in shadow_cfgs(("AES", "Kuznyechik"))]
    allev = []
    for i, (cfg_id, extra, fam) in enumerate(plan):
        kw = dict(keys=nk)
        if fam:
            kw["family"] = fam
        kw.update(extra)
        e = renumber(c.drive(cfg_id, "names", **kw), (i + 1) * 10_000_000)
        for x in e:
            x["cfg"] = cfg_id
        allev += e
    c.validate(allev, API_MOD, API_CFG, "names-backends", what="Debug/AlgorithmName (backend configurations)")
    c.exhaustive = True
    rule = ("every catalogue type, in every backend configuration that has its own impls: Debug text of instances under different "
            "keys identical, contains the type's own name tokens as whole words (spec/NameTokens.tla), RC5 digit groups = <<w,r,b>>; "
            "AlgorithmName carries algorithm and parameter tokens; exhaustive over the compiled types and configurations, keys sampled")
    return c.finish(rule, ASSUME_COMMON)


def c20(tier, seed):
    c = Check("C20", tier, seed)
    thorough = tier == T
    groups = []
    kw = dict(keys=30 if thorough else 3, blocks=8 if thorough else 3, lens="all" if thorough else "few")
    traces = []
    for cfg_id in ("default", "release"):
        traces.append((cfg_id, c.drive(cfg_id, "conf", may_die=True, **kw)))
    c.validate(merge_by_run(traces), API_MOD, API_CFG, "tot-conf", what="dev vs release, single/multi-block")
    traces = []
    for cfg_id in ("default", "release"):
        traces.append((cfg_id, c.drive(cfg_id, "batch", may_die=True, mult=2 if not thorough else 3, random=1 if not thorough else 3)))
    c.validate(merge_by_run(traces), API_MOD, API_CFG, "tot-batch", what="dev vs release, batches")
    traces = []
    for cfg_id in ("default", "release"):
        traces.append((cfg_id, c.drive(cfg_id, "wblock", may_die=True, minlen=32, maxlen=80 if not thorough else 200, extra=3, keys=2,
                                       big=2 if not thorough else 6)))
    c.validate(merge_by_run(traces), API_MOD, API_CFG, "tot-wblock", what="dev vs release, wblock")
    for pair, fams in ((("dev-soft", "release-soft"), "AES,Kuznyechik,Serpent"), (("dev-compact", "release-compact"), "AES,Kuznyechik")):
        traces = [(cfg_id, c.drive(cfg_id, "conf", may_die=True, family=fams, keys=6 if thorough else 3, blocks=3)) for cfg_id in pair]
        c.validate(merge_by_run(traces), API_MOD, API_CFG, f"tot-{pair[0]}", what=f"dev vs release, {pair[0]}")
        traces = [(cfg_id, c.drive(cfg_id, "batch", may_die=True, family=fams, mult=2, random=1)) for cfg_id in pair]
        c.validate(merge_by_run(traces), API_MOD, API_CFG, f"totb-{pair[0]}", what=f"dev vs release batches, {pair[0]}")
    sh = shadow_cfgs(("AES", "Kuznyechik"))
    for fam, cfgs in (("AES", ["aes-soft", "aes-soft-compact"] + [s for s, f in sh if f == "AES"]),
                      ("Kuznyechik", ["kuz-soft", "kuz-compact"] + [s for s, f in sh if f == "Kuznyechik"]), ("Serpent", ["serpent-loop"])):
        for cfg_id in cfgs:
            e = c.drive(cfg_id, "conf", may_die=True, family=fam, keys=4, blocks=3)
            c.validate(e, API_MOD, API_CFG, f"tot-{cfg_id}", what=f"totality {cfg_id}")
    rule = ("the same seeded script (corner-weighted keys/blocks: zero, ones, 0x00FF/0xFF00 word extremes, 16-bit words equal to 1, "
            "bit/byte walks, random) is run by the dev (overflow checks + debug assertions) and release binaries; every call on a "
            "constructed instance must return normally (no trace action accepts outcome=panic; a dead process becomes an `abort` "
            "event, which no action accepts) and both profiles must agree in one learned permutation per key class")
    return c.finish(rule, ASSUME_COMMON)


PROPS = {
    "C01": c01, "C03": c03, "C04": c04, "C11": c11, "C12": c12, "C13": c13, "C14": c14, "C15": c15, "C16": c16,
    "C17": c17, "C18": c18, "C19": c19, "C20": c20,
}
for _p in L2_FAMS:
    PROPS[_p] = (lambda pid: (lambda tier, seed: conformance(pid, tier, seed)))(_p)
