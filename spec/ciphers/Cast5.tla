------------------------------- MODULE Cast5 -------------------------------
(***************************************************************************)
(* CAST-128 (CAST5), written from RFC 2144.                                *)
(*                                                                         *)
(* A 32-bit word is the pair <<lo16, hi16>> (Words.tla convention, least   *)
(* significant limb first).  Bytes of a word are numbered as the RFC does: *)
(* Ia (most significant) .. Id (least significant); the key bytes x0..xF   *)
(* and the temporaries z0..zF are numbered from the most significant byte  *)
(* of the 128-bit quantity.                                                *)
(*                                                                         *)
(* S-boxes S1..S8 (RFC 2144 Appendix A) have no generating rule; they are  *)
(* pinned from /repo/cast5/src/consts.rs by a script (never typed), in the *)
(* RFC order (entry 0 first, read left to right), each 32-bit entry        *)
(* written as its two hexadecimal halves "hi,lo" so that the text reads    *)
(* like the RFC's table.  They are validated by the RFC vectors and by     *)
(* OpenSSL-generated vectors in spec/kat/Cast5.ndjson.                     *)
(*                                                                         *)
(* The key schedule equations (RFC 2144 section 2.4) were emitted by a     *)
(* script from the RFC's own lines, which are kept as comments above each  *)
(* definition.  Since the RFC re-assigns x and z, each re-assignment gets  *)
(* a fresh name: <var><byte numbers>_<generation>.                         *)
(*                                                                         *)
(* KATs (spec/kat/Cast5.ndjson): RFC 2144 Appendix B.1 (128-, 80-, 40-bit  *)
(* keys); random 128-bit-key vectors computed with OpenSSL 3 (legacy       *)
(* provider, cast5-ecb).                                                   *)
(***************************************************************************)
EXTENDS Naturals, Sequences, Bitwise, TLC, Words

\* ------------------------------------------------------------ 32-bit words
\* Two-limb forms of Words.tla AddW/SubW/XorW/RotLW (same mathematics, written out for speed).
M16 == 65536
\* a + b mod 2^32
Add32(a, b) == LET lo == a[1] + b[1]
                   hi == a[2] + b[2] + (lo \div M16)
               IN <<lo % M16, hi % M16>>
\* a - b mod 2^32  (lo \div M16 = 0 exactly when the low limb borrows)
Sub32(a, b) == LET lo == (M16 + a[1]) - b[1]
                   hi == ((M16 - 1) + a[2] + (lo \div M16)) - b[2]
               IN <<lo % M16, hi % M16>>
Xor32(a, b) == <<a[1] ^^ b[1], a[2] ^^ b[2]>>
\* a <<< r, 0 <= r <= 31
Rol32(a, r) == LET s  == r % 16
                   l0 == IF r >= 16 THEN a[2] ELSE a[1]     \* after rotating by whole limbs
                   h0 == IF r >= 16 THEN a[1] ELSE a[2]
               IN IF s = 0 THEN <<l0, h0>>
                  ELSE <<((l0 * Pow2(s)) % M16) + (h0 \div Pow2(16 - s)),
                         ((h0 * Pow2(s)) % M16) + (l0 \div Pow2(16 - s))>>
\* byte k of a word, k = 0 (most significant, "Ia") .. 3 (least significant, "Id")
B(w, k) == IF k = 0 THEN w[2] \div 256
           ELSE IF k = 1 THEN w[2] % 256
           ELSE IF k = 2 THEN w[1] \div 256
           ELSE w[1] % 256
X5(a, b, c, d, e)    == Xor32(Xor32(Xor32(Xor32(a, b), c), d), e)
X6(a, b, c, d, e, f) == Xor32(X5(a, b, c, d, e), f)

\* --------------------------------------------------------------- S-boxes
\* flat list hi,lo,hi,lo,... of 256 entries -> function 0..255 -> <<lo, hi>>
MkS(t) == TLCEval([i \in 0..255 |-> <<t[2*i + 2], t[2*i + 1]>>])

S1Hex == <<
    \h30fb,\h40d4, \h9fa0,\hff0b, \h6bec,\hcd2f, \h3f25,\h8c7a,
    \h1e21,\h3f2f, \h9c00,\h4dd3, \h6003,\he540, \hcf9f,\hc949,
    \hbfd4,\haf27, \h88bb,\hbdb5, \he203,\h4090, \h98d0,\h9675,
    \h6e63,\ha0e0, \h15c3,\h61d2, \hc2e7,\h661d, \h22d4,\hff8e,
    \h2868,\h3b6f, \hc07f,\hd059, \hff23,\h79c8, \h775f,\h50e2,
    \h43c3,\h40d3, \hdf2f,\h8656, \h887c,\ha41a, \ha2d2,\hbd2d,
    \ha1c9,\he0d6, \h346c,\h4819, \h61b7,\h6d87, \h2254,\h0f2f,
    \h2abe,\h32e1, \haa54,\h166b, \h2256,\h8e3a, \ha2d3,\h41d0,
    \h66db,\h40c8, \ha784,\h392f, \h004d,\hff2f, \h2db9,\hd2de,
    \h9794,\h3fac, \h4a97,\hc1d8, \h5276,\h44b7, \hb5f4,\h37a7,
    \hb82c,\hbaef, \hd751,\hd159, \h6ff7,\hf0ed, \h5a09,\h7a1f,
    \h827b,\h68d0, \h90ec,\hf52e, \h22b0,\hc054, \hbc8e,\h5935,
    \h4b6d,\h2f7f, \h50bb,\h64a2, \hd266,\h4910, \hbee5,\h812d,
    \hb733,\h2290, \he93b,\h159f, \hb48e,\he411, \h4bff,\h345d,
    \hfd45,\hc240, \had31,\h973f, \hc4f6,\hd02e, \h55fc,\h8165,
    \hd5b1,\hcaad, \ha1ac,\h2dae, \ha2d4,\hb76d, \hc19b,\h0c50,
    \h8822,\h40f2, \h0c6e,\h4f38, \ha4e4,\hbfd7, \h4f5b,\ha272,
    \h564c,\h1d2f, \hc59c,\h5319, \hb949,\he354, \hb046,\h69fe,
    \hb1b6,\hab8a, \hc713,\h58dd, \h6385,\hc545, \h110f,\h935d,
    \h5753,\h8ad5, \h6a39,\h0493, \he63d,\h37e0, \h2a54,\hf6b3,
    \h3a78,\h7d5f, \h6276,\ha0b5, \h19a6,\hfcdf, \h7a42,\h206a,
    \h29f9,\hd4d5, \hf61b,\h1891, \hbb72,\h275e, \haa50,\h8167,
    \h3890,\h1091, \hc6b5,\h05eb, \h84c7,\hcb8c, \h2ad7,\h5a0f,
    \h874a,\h1427, \ha2d1,\h936b, \h2ad2,\h86af, \haa56,\hd291,
    \hd789,\h4360, \h425c,\h750d, \h93b3,\h9e26, \h1871,\h84c9,
    \h6c00,\hb32d, \h73e2,\hbb14, \ha0be,\hbc3c, \h5462,\h3779,
    \h6445,\h9eab, \h3f32,\h8b82, \h7718,\hcf82, \h59a2,\hcea6,
    \h04ee,\h002e, \h89fe,\h78e6, \h3fab,\h0950, \h325f,\hf6c2,
    \h8138,\h3f05, \h6963,\hc5c8, \h76cb,\h5ad6, \hd499,\h74c9,
    \hca18,\h0dcf, \h3807,\h82d5, \hc7fa,\h5cf6, \h8ac3,\h1511,
    \h35e7,\h9e13, \h47da,\h91d0, \hf40f,\h9086, \ha7e2,\h419e,
    \h3136,\h6241, \h051e,\hf495, \haa57,\h3b04, \h4a80,\h5d8d,
    \h5483,\h00d0, \h0032,\h2a3c, \hbf64,\hcddf, \hba57,\ha68e,
    \h75c6,\h372b, \h50af,\hd341, \ha7c1,\h3275, \h915a,\h0bf5,
    \h6b54,\hbfab, \h2b0b,\h1426, \hab4c,\hc9d7, \h449c,\hcd82,
    \hf7fb,\hf265, \hab85,\hc5f3, \h1b55,\hdb94, \haad4,\he324,
    \hcfa4,\hbd3f, \h2dea,\ha3e2, \h9e20,\h4d02, \hc8bd,\h25ac,
    \headf,\h55b3, \hd5bd,\h9e98, \he312,\h31b2, \h2ad5,\had6c,
    \h9543,\h29de, \hadbe,\h4528, \hd871,\h0f69, \haa51,\hc90f,
    \haa78,\h6bf6, \h2251,\h3f1e, \haa51,\ha79b, \h2ad3,\h44cc,
    \h7b5a,\h41f0, \hd37c,\hfbad, \h1b06,\h9505, \h41ec,\he491,
    \hb4c3,\h32e6, \h0322,\h68d4, \hc960,\h0acc, \hce38,\h7e6d,
    \hbf6b,\hb16c, \h6a70,\hfb78, \h0d03,\hd9c9, \hd4df,\h39de,
    \he010,\h63da, \h4736,\hf464, \h5ad3,\h28d8, \hb347,\hcc96,
    \h75bb,\h0fc3, \h9851,\h1bfb, \h4ffb,\hcc35, \hb58b,\hcf6a,
    \he11f,\h0abc, \hbfc5,\hfe4a, \ha70a,\hec10, \hac39,\h570a,
    \h3f04,\h442f, \h6188,\hb153, \he039,\h7a2e, \h5727,\hcb79,
    \h9ceb,\h418f, \h1cac,\hd68d, \h2ad3,\h7c96, \h0175,\hcb9d,
    \hc69d,\hff09, \hc75b,\h65f0, \hd9db,\h40d8, \hec0e,\h7779,
    \h4744,\head4, \hb11c,\h3274, \hdd24,\hcb9e, \h7e1c,\h54bd,
    \hf011,\h44f9, \hd224,\h0eb1, \h9675,\hb3fd, \ha3ac,\h3755,
    \hd47c,\h27af, \h51c8,\h5f4d, \h5690,\h7596, \ha5bb,\h15e6,
    \h5803,\h04f0, \hca04,\h2cf1, \h011a,\h37ea, \h8dbf,\haadb,
    \h35ba,\h3e4a, \h3526,\hffa0, \hc37b,\h4d09, \hbc30,\h6ed9,
    \h98a5,\h2666, \h5648,\hf725, \hff5e,\h569d, \h0ced,\h63d0,
    \h7c63,\hb2cf, \h700b,\h45e1, \hd5ea,\h50f1, \h85a9,\h2872,
    \haf1f,\hbda7, \hd423,\h4870, \ha787,\h0bf3, \h2d3b,\h4d79,
    \h42e0,\h4198, \h0cd0,\hede7, \h2647,\h0db8, \hf881,\h814c,
    \h474d,\h6ad7, \h7c0c,\h5e5c, \hd123,\h1959, \h381b,\h7298,
    \hf5d2,\hf4db, \hab83,\h8653, \h6e2f,\h1e23, \h8371,\h9c9e,
    \hbd91,\he046, \h9a56,\h456e, \hdc39,\h200c, \h20c8,\hc571,
    \h962b,\hda1c, \he1e6,\h96ff, \hb141,\hab08, \h7cca,\h89b9,
    \h1a69,\he783, \h02cc,\h4843, \ha2f7,\hc579, \h429e,\hf47d,
    \h427b,\h169c, \h5ac9,\hf049, \hdd8f,\h0f00, \h5c81,\h65bf
>>
S1 == MkS(S1Hex)

S2Hex == <<
    \h1f20,\h1094, \hef0b,\ha75b, \h69e3,\hcf7e, \h393f,\h4380,
    \hfe61,\hcf7a, \heec5,\h207a, \h5588,\h9c94, \h72fc,\h0651,
    \hada7,\hef79, \h4e1d,\h7235, \hd55a,\h63ce, \hde04,\h36ba,
    \h99c4,\h30ef, \h5f0c,\h0794, \h18dc,\hdb7d, \ha1d6,\heff3,
    \ha0b5,\h2f7b, \h59e8,\h3605, \hee15,\hb094, \he9ff,\hd909,
    \hdc44,\h0086, \hef94,\h4459, \hba83,\hccb3, \he0c3,\hcdfb,
    \hd1da,\h4181, \h3b09,\h2ab1, \hf997,\hf1c1, \ha5e6,\hcf7b,
    \h0142,\h0ddb, \he4e7,\hef5b, \h25a1,\hff41, \he180,\hf806,
    \h1fc4,\h1080, \h179b,\hee7a, \hd37a,\hc6a9, \hfe58,\h30a4,
    \h98de,\h8b7f, \h77e8,\h3f4e, \h7992,\h9269, \h24fa,\h9f7b,
    \he113,\hc85b, \hacc4,\h0083, \hd750,\h3525, \hf7ea,\h615f,
    \h6214,\h3154, \h0d55,\h4b63, \h5d68,\h1121, \hc866,\hc359,
    \h3d63,\hcf73, \hcee2,\h34c0, \hd4d8,\h7e87, \h5c67,\h2b21,
    \h071f,\h6181, \h39f7,\h627f, \h361e,\h3084, \he4eb,\h573b,
    \h602f,\h64a4, \hd63a,\hcd9c, \h1bbc,\h4635, \h9e81,\h032d,
    \h2701,\hf50c, \h9984,\h7ab4, \ha0e3,\hdf79, \hba6c,\hf38c,
    \h1084,\h3094, \h2537,\ha95e, \hf46f,\h6ffe, \ha1ff,\h3b1f,
    \h208c,\hfb6a, \h8f45,\h8c74, \hd9e0,\ha227, \h4ec7,\h3a34,
    \hfc88,\h4f69, \h3e4d,\he8df, \hef0e,\h0088, \h3559,\h648d,
    \h8a45,\h388c, \h1d80,\h4366, \h721d,\h9bfd, \ha586,\h84bb,
    \he825,\h6333, \h844e,\h8212, \h128d,\h8098, \hfed3,\h3fb4,
    \hce28,\h0ae1, \h27e1,\h9ba5, \hd5a6,\hc252, \he497,\h54bd,
    \hc5d6,\h55dd, \heb66,\h7064, \h7784,\h0b4d, \ha1b6,\ha801,
    \h84db,\h26a9, \he0b5,\h6714, \h21f0,\h43b7, \he5d0,\h5860,
    \h54f0,\h3084, \h066f,\hf472, \ha31a,\ha153, \hdadc,\h4755,
    \hb562,\h5dbf, \h6856,\h1be6, \h83ca,\h6b94, \h2d6e,\hd23b,
    \heccf,\h01db, \ha6d3,\hd0ba, \hb680,\h3d5c, \haf77,\ha709,
    \h33b4,\ha34c, \h397b,\hc8d6, \h5ee2,\h2b95, \h5f0e,\h5304,
    \h81ed,\h6f61, \h20e7,\h4364, \hb45e,\h1378, \hde18,\h639b,
    \h881c,\ha122, \hb967,\h26d1, \h8049,\ha7e8, \h22b7,\hda7b,
    \h5e55,\h2d25, \h5272,\hd237, \h79d2,\h951c, \hc60d,\h894c,
    \h488c,\hb402, \h1ba4,\hfe5b, \ha4b0,\h9f6b, \h1ca8,\h15cf,
    \ha20c,\h3005, \h8871,\hdf63, \hb9de,\h2fcb, \h0cc6,\hc9e9,
    \h0bee,\hff53, \he321,\h4517, \hb454,\h2835, \h9f63,\h293c,
    \hee41,\he729, \h6e1d,\h2d7c, \h5004,\h5286, \h1e66,\h85f3,
    \hf334,\h01c6, \h30a2,\h2c95, \h31a7,\h0850, \h6093,\h0f13,
    \h73f9,\h8417, \ha126,\h9859, \hec64,\h5c44, \h52c8,\h77a9,
    \hcdff,\h33a6, \ha02b,\h1741, \h7cba,\hd9a2, \h2180,\h036f,
    \h50d9,\h9c08, \hcb3f,\h4861, \hc26b,\hd765, \h64a3,\hf6ab,
    \h8034,\h2676, \h25a7,\h5e7b, \he4e6,\hd1fc, \h20c7,\h10e6,
    \hcdf0,\hb680, \h1784,\h4d3b, \h31ee,\hf84d, \h7e08,\h24e4,
    \h2ccb,\h49eb, \h846a,\h3bae, \h8ff7,\h7888, \hee5d,\h60f6,
    \h7af7,\h5673, \h2fdd,\h5cdb, \ha116,\h31c1, \h30f6,\h6f43,
    \hb3fa,\hec54, \h157f,\hd7fa, \hef85,\h79cc, \hd152,\hde58,
    \hdb2f,\hfd5e, \h8f32,\hce19, \h306a,\hf97a, \h02f0,\h3ef8,
    \h9931,\h9ad5, \hc242,\hfa0f, \ha7e3,\hebb0, \hc68e,\h4906,
    \hb8da,\h230c, \h8082,\h3028, \hdcde,\hf3c8, \hd35f,\hb171,
    \h088a,\h1bc8, \hbec0,\hc560, \h61a3,\hc9e8, \hbca8,\hf54d,
    \hc72f,\heffa, \h2282,\h2e99, \h82c5,\h70b4, \hd8d9,\h4e89,
    \h8b1c,\h34bc, \h301e,\h16e6, \h273b,\he979, \hb0ff,\heaa6,
    \h61d9,\hb8c6, \h00b2,\h4869, \hb7ff,\hce3f, \h08dc,\h283b,
    \h43da,\hf65a, \hf7e1,\h9798, \h7619,\hb72f, \h8f1c,\h9ba4,
    \hdc86,\h37a0, \h16a7,\hd3b1, \h9fc3,\h93b7, \ha713,\h6eeb,
    \hc6bc,\hc63e, \h1a51,\h3742, \hef68,\h28bc, \h5203,\h65d6,
    \h2d6a,\h77ab, \h3527,\hed4b, \h821f,\hd216, \h095c,\h6e2e,
    \hdb92,\hf2fb, \h5eea,\h29cb, \h1458,\h92f5, \h9158,\h4f7f,
    \h5483,\h697b, \h2667,\ha8cc, \h8519,\h6048, \h8c4b,\hacea,
    \h8338,\h60d4, \h0d23,\he0f9, \h6c38,\h7e8a, \h0ae6,\hd249,
    \hb284,\h600c, \hd835,\h731d, \hdcb1,\hc647, \hac4c,\h56ea,
    \h3ebd,\h81b3, \h230e,\habb0, \h6438,\hbc87, \hf0b5,\hb1fa,
    \h8f5e,\ha2b3, \hfc18,\h4642, \h0a03,\h6b7a, \h4fb0,\h89bd,
    \h649d,\ha589, \ha345,\h415e, \h5c03,\h8323, \h3e5d,\h3bb9,
    \h43d7,\h9572, \h7e6d,\hd07c, \h06df,\hdf1e, \h6c6c,\hc4ef,
    \h7160,\ha539, \h73bf,\hbe70, \h8387,\h7605, \h4523,\hecf1
>>
S2 == MkS(S2Hex)

S3Hex == <<
    \h8def,\hc240, \h25fa,\h5d9f, \heb90,\h3dbf, \he810,\hc907,
    \h4760,\h7fff, \h369f,\he44b, \h8c1f,\hc644, \haece,\hca90,
    \hbeb1,\hf9bf, \heefb,\hcaea, \he8cf,\h1950, \h51df,\h07ae,
    \h920e,\h8806, \hf0ad,\h0548, \he13c,\h8d83, \h9270,\h10d5,
    \h1110,\h7d9f, \h0764,\h7db9, \hb2e3,\he4d4, \h3d4f,\h285e,
    \hb9af,\ha820, \hfade,\h82e0, \ha067,\h268b, \h8272,\h792e,
    \h553f,\hb2c0, \h489a,\he22b, \hd4ef,\h9794, \h125e,\h3fbc,
    \h21ff,\hfcee, \h825b,\h1bfd, \h9255,\hc5ed, \h1257,\ha240,
    \h4e1a,\h8302, \hbae0,\h7fff, \h5282,\h46e7, \h8e57,\h140e,
    \h3373,\hf7bf, \h8c9f,\h8188, \ha6fc,\h4ee8, \hc982,\hb5a5,
    \ha8c0,\h1db7, \h579f,\hc264, \h6709,\h4f31, \hf2bd,\h3f5f,
    \h40ff,\hf7c1, \h1fb7,\h8dfc, \h8e6b,\hd2c1, \h437b,\he59b,
    \h99b0,\h3dbf, \hb5db,\hc64b, \h638d,\hc0e6, \h5581,\h9d99,
    \ha197,\hc81c, \h4a01,\h2d6e, \hc588,\h4a28, \hccc3,\h6f71,
    \hb843,\hc213, \h6c07,\h43f1, \h8309,\h893c, \h0fed,\hdd5f,
    \h2f7f,\he850, \hd7c0,\h7f7e, \h0250,\h7fbf, \h5afb,\h9a04,
    \ha747,\hd2d0, \h1651,\h192e, \haf70,\hbf3e, \h58c3,\h1380,
    \h5f98,\h302e, \h727c,\hc3c4, \h0a0f,\hb402, \h0f7f,\hef82,
    \h8c96,\hfdad, \h5d2c,\h2aae, \h8ee9,\h9a49, \h50da,\h88b8,
    \h8427,\hf4a0, \h1eac,\h5790, \h796f,\hb449, \h8252,\hdc15,
    \hefbd,\h7d9b, \ha672,\h597d, \hada8,\h40d8, \h45f5,\h4504,
    \hfa5d,\h7403, \he83e,\hc305, \h4f91,\h751a, \h9256,\h69c2,
    \h23ef,\he941, \ha903,\hf12e, \h6027,\h0df2, \h0276,\he4b6,
    \h94fd,\h6574, \h9279,\h85b2, \h8276,\hdbcb, \h0277,\h8176,
    \hf8af,\h918d, \h4e48,\hf79e, \h8f61,\h6ddf, \he29d,\h840e,
    \h842f,\h7d83, \h340c,\he5c8, \h96bb,\hb682, \h93b4,\hb148,
    \hef30,\h3cab, \h984f,\haf28, \h779f,\haf9b, \h92dc,\h560d,
    \h224d,\h1e20, \h8437,\haa88, \h7d29,\hdc96, \h2756,\hd3dc,
    \h8b90,\h7cee, \hb51f,\hd240, \he7c0,\h7ce3, \he566,\hb4a1,
    \hc3e9,\h615e, \h3cf8,\h209d, \h6094,\hd1e3, \hcd9c,\ha341,
    \h5c76,\h460e, \h00ea,\h983b, \hd4d6,\h7881, \hfd47,\h572c,
    \hf76c,\hedd9, \hbda8,\h229c, \h127d,\hadaa, \h438a,\h074e,
    \h1f97,\hc090, \h081b,\hdb8a, \h93a0,\h7ebe, \hb938,\hca15,
    \h97b0,\h3cff, \h3dc2,\hc0f8, \h8d1a,\hb2ec, \h6438,\h0e51,
    \h68cc,\h7bfb, \hd90f,\h2788, \h1249,\h0181, \h5de5,\hffd4,
    \hdd7e,\hf86a, \h76a2,\he214, \hb9a4,\h0368, \h925d,\h958f,
    \h4b39,\hfffa, \hba39,\haee9, \ha4ff,\hd30b, \hfaf7,\h933b,
    \h6d49,\h8623, \h193c,\hbcfa, \h2762,\h7545, \h825c,\hf47a,
    \h61bd,\h8ba0, \hd11e,\h42d1, \hcead,\h04f4, \h127e,\ha392,
    \h1042,\h8db7, \h8272,\ha972, \h9270,\hc4a8, \h127d,\he50b,
    \h285b,\ha1c8, \h3c62,\hf44f, \h35c0,\heaa5, \he805,\hd231,
    \h4289,\h29fb, \hb4fc,\hdf82, \h4fb6,\h6a53, \h0e7d,\hc15b,
    \h1f08,\h1fab, \h1086,\h18ae, \hfcfd,\h086d, \hf9ff,\h2889,
    \h694b,\hcc11, \h236a,\h5cae, \h12de,\hca4d, \h2c3f,\h8cc5,
    \hd2d0,\h2dfe, \hf8ef,\h5896, \he4cf,\h52da, \h9515,\h5b67,
    \h494a,\h488c, \hb9b6,\ha80c, \h5c8f,\h82bc, \h89d3,\h6b45,
    \h3a60,\h9437, \hec00,\hc9a9, \h4471,\h5253, \h0a87,\h4b49,
    \hd773,\hbc40, \h7c34,\h671c, \h0271,\h7ef6, \h4feb,\h5536,
    \ha2d0,\h2fff, \hd2bf,\h60c4, \hd43f,\h03c0, \h50b4,\hef6d,
    \h0747,\h8cd1, \h006e,\h1888, \ha2e5,\h3f55, \hb9e6,\hd4bc,
    \ha204,\h8016, \h9757,\h3833, \hd720,\h7d67, \hde0f,\h8f3d,
    \h72f8,\h7b33, \habcc,\h4f33, \h7688,\hc55d, \h7b00,\ha6b0,
    \h947b,\h0001, \h5700,\h75d2, \hf9bb,\h88f8, \h8942,\h019e,
    \h4264,\ha5ff, \h8563,\h02e0, \h72db,\hd92b, \hee97,\h1b69,
    \h6ea2,\h2fde, \h5f08,\hae2b, \haf7a,\h616d, \he5c9,\h8767,
    \hcf1f,\hebd2, \h61ef,\hc8c2, \hf1ac,\h2571, \hcc82,\h39c2,
    \h6721,\h4cb8, \hb1e5,\h83d1, \hb7dc,\h3e62, \h7f10,\hbdce,
    \hf90a,\h5c38, \h0ff0,\h443d, \h606e,\h6dc6, \h6054,\h3a49,
    \h5727,\hc148, \h2be9,\h8a1d, \h8ab4,\h1738, \h20e1,\hbe24,
    \haf96,\hda0f, \h6845,\h8425, \h9983,\h3be5, \h600d,\h457d,
    \h282f,\h9350, \h8334,\hb362, \hd91d,\h1120, \h2b6d,\h8da0,
    \h642b,\h1e31, \h9c30,\h5a00, \h52bc,\he688, \h1b03,\h588a,
    \hf7ba,\hefd5, \h4142,\hed9c, \ha431,\h5c11, \h8332,\h3ec5,
    \hdfef,\h4636, \ha133,\hc501, \he9d3,\h531c, \hee35,\h3783
>>
S3 == MkS(S3Hex)

S4Hex == <<
    \h9db3,\h0420, \h1fb6,\he9de, \ha7be,\h7bef, \hd273,\ha298,
    \h4a4f,\h7bdb, \h64ad,\h8c57, \h8551,\h0443, \hfa02,\h0ed1,
    \h7e28,\h7aff, \he60f,\hb663, \h095f,\h35a1, \h79eb,\hf120,
    \hfd05,\h9d43, \h6497,\hb7b1, \hf364,\h1f63, \h241e,\h4adf,
    \h2814,\h7f5f, \h4fa2,\hb8cd, \hc943,\h0040, \h0cc3,\h2220,
    \hfdd3,\h0b30, \hc0a5,\h374f, \h1d2d,\h00d9, \h2414,\h7b15,
    \hee4d,\h111a, \h0fca,\h5167, \h71ff,\h904c, \h2d19,\h5ffe,
    \h1a05,\h645f, \h0c13,\hfefe, \h081b,\h08ca, \h0517,\h0121,
    \h8053,\h0100, \he83e,\h5efe, \hac9a,\hf4f8, \h7fe7,\h2701,
    \hd2b8,\hee5f, \h06df,\h4261, \hbb9e,\h9b8a, \h7293,\hea25,
    \hce84,\hffdf, \hf571,\h8801, \h3dd6,\h4b04, \ha26f,\h263b,
    \h7ed4,\h8400, \h547e,\hebe6, \h446d,\h4ca0, \h6cf3,\hd6f5,
    \h2649,\habdf, \haea0,\hc7f5, \h3633,\h8cc1, \h503f,\h7e93,
    \hd377,\h2061, \h11b6,\h38e1, \h7250,\h0e03, \hf80e,\hb2bb,
    \habe0,\h502e, \hec8d,\h77de, \h5797,\h1e81, \he14f,\h6746,
    \hc933,\h5400, \h6920,\h318f, \h081d,\hbb99, \hffc3,\h04a5,
    \h4d35,\h1805, \h7f3d,\h5ce3, \ha6c8,\h66c6, \h5d5b,\hcca9,
    \hdaec,\h6fea, \h9f92,\h6f91, \h9f46,\h222f, \h3991,\h467d,
    \ha5bf,\h6d8e, \h1143,\hc44f, \h4395,\h8302, \hd021,\h4eeb,
    \h0220,\h83b8, \h3fb6,\h180c, \h18f8,\h931e, \h2816,\h58e6,
    \h2648,\h6e3e, \h8bd7,\h8a70, \h7477,\he4c1, \hb506,\he07c,
    \hf32d,\h0a25, \h7909,\h8b02, \he4ea,\hbb81, \h2812,\h3b23,
    \h69de,\had38, \h1574,\hca16, \hdf87,\h1b62, \h211c,\h40b7,
    \ha51a,\h9ef9, \h0014,\h377b, \h041e,\h8ac8, \h0911,\h4003,
    \hbd59,\he4d2, \he3d1,\h56d5, \h4fe8,\h76d5, \h2f91,\ha340,
    \h557b,\he8de, \h00ea,\he4a7, \h0ce5,\hc2ec, \h4db4,\hbba6,
    \he756,\hbdff, \hdd33,\h69ac, \hec17,\hb035, \h0657,\h2327,
    \h99af,\hc8b0, \h56c8,\hc391, \h6b65,\h811c, \h5e14,\h6119,
    \h6e85,\hcb75, \hbe07,\hc002, \hc232,\h5577, \h893f,\hf4ec,
    \h5bbf,\hc92d, \hd0ec,\h3b25, \hb780,\h1ab7, \h8d6d,\h3b24,
    \h20c7,\h63ef, \hc366,\ha5fc, \h9c38,\h2880, \h0ace,\h3205,
    \haac9,\h548a, \heca1,\hd7c7, \h041a,\hfa32, \h1d16,\h625a,
    \h6701,\h902c, \h9b75,\h7a54, \h31d4,\h77f7, \h9126,\hb031,
    \h36cc,\h6fdb, \hc70b,\h8b46, \hd9e6,\h6a48, \h56e5,\h5a79,
    \h026a,\h4ceb, \h5243,\h7eff, \h2f8f,\h76b4, \h0df9,\h80a5,
    \h8674,\hcde3, \hedda,\h04eb, \h17a9,\hbe04, \h2c18,\hf4df,
    \hb774,\h7f9d, \hab2a,\hf7b4, \hefc3,\h4d20, \h2e09,\h6b7c,
    \h1741,\ha254, \he5b6,\ha035, \h213d,\h42f6, \h2c1c,\h7c26,
    \h61c2,\hf50f, \h6552,\hdaf9, \hd2c2,\h31f8, \h2513,\h0f69,
    \hd816,\h7fa2, \h0418,\hf2c8, \h001a,\h96a6, \h0d15,\h26ab,
    \h6331,\h5c21, \h5e0a,\h72ec, \h49ba,\hfefd, \h1879,\h08d9,
    \h8d0d,\hbd86, \h3111,\h70a7, \h3e9b,\h640c, \hcc3e,\h10d7,
    \hd5ca,\hd3b6, \h0cae,\hc388, \hf730,\h01e1, \h6c72,\h8aff,
    \h71ea,\he2a1, \h1f9a,\hf36e, \hcfcb,\hd12f, \hc1de,\h8417,
    \hac07,\hbe6b, \hcb44,\ha1d8, \h8b9b,\h0f56, \h0139,\h88c3,
    \hb1c5,\h2fca, \hb4be,\h31cd, \hd878,\h2806, \h12a3,\ha4e2,
    \h6f7d,\he532, \h58fd,\h7eb6, \hd01e,\he900, \h24ad,\hffc2,
    \hf499,\h0fc5, \h9711,\haac5, \h001d,\h7b95, \h82e5,\he7d2,
    \h1098,\h73f6, \h0061,\h3096, \hc32d,\h9521, \hada1,\h21ff,
    \h2990,\h8415, \h7fbb,\h977f, \haf9e,\hb3db, \h29c9,\hed2a,
    \h5ce2,\ha465, \ha730,\hf32c, \hd0aa,\h3fe8, \h8a5c,\hc091,
    \hd49e,\h2ce7, \h0ce4,\h54a9, \hd60a,\hcd86, \h015f,\h1919,
    \h7707,\h9103, \hdea0,\h3af6, \h78a8,\h565e, \hdee3,\h56df,
    \h21f0,\h5cbe, \h8b75,\he387, \hb3c5,\h0651, \hb8a5,\hc3ef,
    \hd8ee,\hb6d2, \he523,\hbe77, \hc215,\h4529, \h2f69,\hefdf,
    \hafe6,\h7afb, \hf470,\hc4b2, \hf3e0,\heb5b, \hd6cc,\h9876,
    \h39e4,\h460c, \h1fda,\h8538, \h1987,\h832f, \hca00,\h7367,
    \ha991,\h44f8, \h296b,\h299e, \h492f,\hc295, \h9266,\hbeab,
    \hb567,\h6e69, \h9bd3,\hddda, \hdf7e,\h052f, \hdb25,\h701c,
    \h1b5e,\h51ee, \hf653,\h24e6, \h6afc,\he36c, \h0316,\hcc04,
    \h8644,\h213e, \hb7dc,\h59d0, \h7965,\h291f, \hccd6,\hfd43,
    \h4182,\h3979, \h932b,\hcdf6, \hb657,\hc34d, \h4edf,\hd282,
    \h7ae5,\h290c, \h3cb9,\h536b, \h851e,\h20fe, \h9833,\h557e,
    \h13ec,\hf0b0, \hd3ff,\hb372, \h3f85,\hc5c1, \h0aef,\h7ed2
>>
S4 == MkS(S4Hex)

S5Hex == <<
    \h7ec9,\h0c04, \h2c6e,\h74b9, \h9b0e,\h66df, \ha633,\h7911,
    \hb86a,\h7fff, \h1dd3,\h58f5, \h44dd,\h9d44, \h1731,\h167f,
    \h08fb,\hf1fa, \he7f5,\h11cc, \hd205,\h1b00, \h735a,\hba00,
    \h2ab7,\h22d8, \h3863,\h81cb, \hacf6,\h243a, \h69be,\hfd7a,
    \he6a2,\he77f, \hf0c7,\h20cd, \hc449,\h4816, \hccf5,\hc180,
    \h3885,\h1640, \h15b0,\ha848, \he68b,\h18cb, \h4caa,\hdeff,
    \h5f48,\h0a01, \h0412,\hb2aa, \h2598,\h14fc, \h41d0,\hefe2,
    \h4e40,\hb48d, \h248e,\hb6fb, \h8dba,\h1cfe, \h41a9,\h9b02,
    \h1a55,\h0a04, \hba8f,\h65cb, \h7251,\hf4e7, \h95a5,\h1725,
    \hc106,\hecd7, \h97a5,\h980a, \hc539,\hb9aa, \h4d79,\hfe6a,
    \hf2f3,\hf763, \h68af,\h8040, \hed0c,\h9e56, \h11b4,\h958b,
    \he1eb,\h5a88, \h8709,\he6b0, \hd7e0,\h7156, \h4e29,\hfea7,
    \h6366,\he52d, \h02d1,\hc000, \hc4ac,\h8e05, \h9377,\hf571,
    \h0c05,\h372a, \h5785,\h35f2, \h2261,\hbe02, \hd642,\ha0c9,
    \hdf13,\ha280, \h74b5,\h5bd2, \h6821,\h99c0, \hd421,\he5ec,
    \h53fb,\h3ce8, \hc8ad,\hedb3, \h28a8,\h7fc9, \h3d95,\h9981,
    \h5c1f,\hf900, \hfe38,\hd399, \h0c4e,\hff0b, \h0624,\h07ea,
    \haa2f,\h4fb1, \h4fb9,\h6976, \h90c7,\h9505, \hb0a8,\ha774,
    \hef55,\ha1ff, \he59c,\ha2c2, \ha6b6,\h2d27, \he66a,\h4263,
    \hdf65,\h001f, \h0ec5,\h0966, \hdfdd,\h55bc, \h29de,\h0655,
    \h911e,\h739a, \h17af,\h8975, \h32c7,\h911c, \h89f8,\h9468,
    \h0d01,\he980, \h5247,\h55f4, \h03b6,\h3cc9, \h0cc8,\h44b2,
    \hbcf3,\hf0aa, \h87ac,\h36e9, \he53a,\h7426, \h01b3,\hd82b,
    \h1a9e,\h7449, \h64ee,\h2d7e, \hcddb,\hb1da, \h01c9,\h4910,
    \hb868,\hbf80, \h0d26,\hf3fd, \h9342,\hede7, \h04a5,\hc284,
    \h6367,\h37b6, \h50f5,\hb616, \hf247,\h66e3, \h8eca,\h36c1,
    \h136e,\h05db, \hfef1,\h8391, \hfb88,\h7a37, \hd6e7,\hf7d4,
    \hc7fb,\h7dc9, \h3063,\hfcdf, \hb6f5,\h89de, \hec29,\h41da,
    \h26e4,\h6695, \hb756,\h6419, \hf654,\hefc5, \hd08d,\h58b7,
    \h4892,\h5401, \hc1ba,\hcb7f, \he5ff,\h550f, \hb608,\h3049,
    \h5bb5,\hd0e8, \h87d7,\h2e5a, \hab6a,\h6ee1, \h223a,\h66ce,
    \hc62b,\hf3cd, \h9e08,\h85f9, \h68cb,\h3e47, \h086c,\h010f,
    \ha21d,\he820, \hd18b,\h69de, \hf3f6,\h5777, \hfa02,\hc3f6,
    \h407e,\hdac3, \hcbb3,\hd550, \h1793,\h084d, \hb0d7,\h0eba,
    \h0ab3,\h78d5, \hd951,\hfb0c, \hded7,\hda56, \h4124,\hbbe4,
    \h94ca,\h0b56, \h0f57,\h55d1, \he0e1,\he56e, \h6184,\hb5be,
    \h580a,\h249f, \h94f7,\h4bc0, \he327,\h888e, \h9f7b,\h5561,
    \hc3dc,\h0280, \h0568,\h7715, \h646c,\h6bd7, \h4490,\h4db3,
    \h66b4,\hf0a3, \hc0f1,\h648a, \h697e,\hd5af, \h49e9,\h2ff6,
    \h309e,\h374f, \h2cb6,\h356a, \h8580,\h8573, \h4991,\hf840,
    \h76f0,\hae02, \h083b,\he84d, \h2842,\h1c9a, \h4448,\h9406,
    \h736e,\h4cb8, \hc109,\h2910, \h8bc9,\h5fc6, \h7d86,\h9cf4,
    \h134f,\h616f, \h2e77,\h118d, \hb31b,\h2be1, \haa90,\hb472,
    \h3ca5,\hd717, \h7d16,\h1bba, \h9cad,\h9010, \haf46,\h2ba2,
    \h9fe4,\h59d2, \h45d3,\h4559, \hd9f2,\hda13, \hdbc6,\h5487,
    \hf3e4,\hf94e, \h176d,\h486f, \h097c,\h13ea, \h631d,\ha5c7,
    \h445f,\h7382, \h1756,\h83f4, \hcdc6,\h6a97, \h70be,\h0288,
    \hb3cd,\hcf72, \h6e5d,\hd2f3, \h2093,\h6079, \h459b,\h80a5,
    \hbe60,\he2db, \ha9c2,\h3101, \heba5,\h315c, \h224e,\h42f2,
    \h1c5c,\h1572, \hf672,\h1b2c, \h1ad2,\hfff3, \h8c25,\h404e,
    \h324e,\hd72f, \h4067,\hb7fd, \h0523,\h138e, \h5ca3,\hbc78,
    \hdc0f,\hd66e, \h7592,\h2283, \h784d,\h6b17, \h58eb,\hb16e,
    \h4409,\h4f85, \h3f48,\h1d87, \hfcfe,\hae7b, \h77b5,\hff76,
    \h8c23,\h02bf, \haaf4,\h7556, \h5f46,\hb02a, \h2b09,\h2801,
    \h3d38,\hf5f7, \h0ca8,\h1f36, \h52af,\h4a8a, \h66d5,\he7c0,
    \hdf3b,\h0874, \h9505,\h5110, \h1b5a,\hd7a8, \hf61e,\hd5ad,
    \h6cf6,\he479, \h2075,\h8184, \hd0ce,\hfa65, \h88f7,\hbe58,
    \h4a04,\h6826, \h0ff6,\hf8f3, \ha09c,\h7f70, \h5346,\haba0,
    \h5ce9,\h6c28, \he176,\heda3, \h6bac,\h307f, \h3768,\h29d2,
    \h8536,\h0fa9, \h17e3,\hfe2a, \h24b7,\h9767, \hf5a9,\h6b20,
    \hd6cd,\h2595, \h68ff,\h1ebf, \h7555,\h442c, \hf19f,\h06be,
    \hf9e0,\h659a, \heeb9,\h491d, \h3401,\h0718, \hbb30,\hcab8,
    \he822,\hfe15, \h8857,\h0983, \h750e,\h6249, \hda62,\h7e55,
    \h5e76,\hffa8, \hb153,\h4546, \h6d47,\hde08, \hefe9,\he7d4
>>
S5 == MkS(S5Hex)

S6Hex == <<
    \hf6fa,\h8f9d, \h2cac,\h6ce1, \h4ca3,\h4867, \he233,\h7f7c,
    \h95db,\h08e7, \h0168,\h43b4, \heced,\h5cbc, \h3255,\h53ac,
    \hbf9f,\h0960, \hdfa1,\he2ed, \h83f0,\h579d, \h63ed,\h86b9,
    \h1ab6,\ha6b8, \hde5e,\hbe39, \hf38f,\hf732, \h8989,\hb138,
    \h33f1,\h4961, \hc019,\h37bd, \hf506,\hc6da, \he462,\h5e7e,
    \ha308,\hea99, \h4e23,\he33c, \h79cb,\hd7cc, \h48a1,\h4367,
    \ha314,\h9619, \hfec9,\h4bd5, \ha114,\h174a, \heaa0,\h1866,
    \ha084,\hdb2d, \h09a8,\h486f, \ha888,\h614a, \h2900,\haf98,
    \h0166,\h5991, \he199,\h2863, \hc8f3,\h0c60, \h2e78,\hef3c,
    \hd0d5,\h1932, \hcf0f,\hec14, \hf7ca,\h07d2, \hd0a8,\h2072,
    \hfd41,\h197e, \h9305,\ha6b0, \he86b,\he3da, \h74be,\hd3cd,
    \h372d,\ha53c, \h4c7f,\h4448, \hdab5,\hd440, \h6dba,\h0ec3,
    \h0839,\h19a7, \h9fba,\heed9, \h49db,\hcfb0, \h4e67,\h0c53,
    \h5c3d,\h9c01, \h64bd,\hb941, \h2c0e,\h636a, \hba7d,\hd9cd,
    \hea6f,\h7388, \he70b,\hc762, \h35f2,\h9adb, \h5c4c,\hdd8d,
    \hf0d4,\h8d8c, \hb881,\h53e2, \h08a1,\h9866, \h1ae2,\heac8,
    \h284c,\haf89, \haa92,\h8223, \h9334,\hbe53, \h3b3a,\h21bf,
    \h1643,\h4be3, \h9aea,\h3906, \hefe8,\hc36e, \hf890,\hcdd9,
    \h8022,\h6dae, \hc340,\ha4a3, \hdf7e,\h9c09, \ha694,\ha807,
    \h5b7c,\h5ecc, \h221d,\hb3a6, \h9a69,\ha02f, \h6881,\h8a54,
    \hceb2,\h296f, \h53c0,\h843a, \hfe89,\h3655, \h25bf,\he68a,
    \hb462,\h8abc, \hcf22,\h2ebf, \h25ac,\h6f48, \ha9a9,\h9387,
    \h53bd,\hdb65, \he76f,\hfbe7, \he967,\hfd78, \h0ba9,\h3563,
    \h8e34,\h2bc1, \he8a1,\h1be9, \h4980,\h740d, \hc808,\h7dfc,
    \h8de4,\hbf99, \ha111,\h01a0, \h7fd3,\h7975, \hda5a,\h26c0,
    \he81f,\h994f, \h9528,\hcd89, \hfd33,\h9fed, \hb878,\h34bf,
    \h5f04,\h456d, \h2225,\h8698, \hc9c4,\hc83b, \h2dc1,\h56be,
    \h4f62,\h8daa, \h57f5,\h5ec5, \he222,\h0abe, \hd291,\h6ebf,
    \h4ec7,\h5b95, \h24f2,\hc3c0, \h42d1,\h5d99, \hcd0d,\h7fa0,
    \h7b6e,\h27ff, \ha8dc,\h8af0, \h7345,\hc106, \hf41e,\h232f,
    \h3516,\h2386, \he6ea,\h8926, \h3333,\hb094, \h157e,\hc6f2,
    \h372b,\h74af, \h6925,\h73e4, \he9a9,\hd848, \hf316,\h0289,
    \h3a62,\hef1d, \ha787,\he238, \hf3a5,\hf676, \h7436,\h4853,
    \h2095,\h1063, \h4576,\h698d, \hb6fa,\hd407, \h592a,\hf950,
    \h36f7,\h3523, \h4cfb,\h6e87, \h7da4,\hcec0, \h6c15,\h2daa,
    \hcb03,\h96a8, \hc50d,\hfe5d, \hfcd7,\h07ab, \h0921,\hc42f,
    \h89df,\hf0bb, \h5fe2,\hbe78, \h448f,\h4f33, \h7546,\h13c9,
    \h2b05,\hd08d, \h48b9,\hd585, \hdc04,\h9441, \hc809,\h8f9b,
    \h7ded,\he786, \hc39a,\h3373, \h4241,\h0005, \h6a09,\h1751,
    \h0ef3,\hc8a6, \h8900,\h72d6, \h2820,\h7682, \ha9a9,\hf7be,
    \hbf32,\h679d, \hd45b,\h5b75, \hb353,\hfd00, \hcbb0,\he358,
    \h830f,\h220a, \h1f8f,\hb214, \hd372,\hcf08, \hcc3c,\h4a13,
    \h8cf6,\h3166, \h061c,\h87be, \h88c9,\h8f88, \h6062,\he397,
    \h47cf,\h8e7a, \hb6c8,\h5283, \h3cc2,\hacfb, \h3fc0,\h6976,
    \h4e8f,\h0252, \h64d8,\h314d, \hda38,\h70e3, \h1e66,\h5459,
    \hc109,\h08f0, \h5130,\h21a5, \h6c5b,\h68b7, \h822f,\h8aa0,
    \h3007,\hcd3e, \h7471,\h9eef, \hdc87,\h2681, \h0733,\h40d4,
    \h7e43,\h2fd9, \h0c5e,\hc241, \h8809,\h286c, \hf592,\hd891,
    \h08a9,\h30f6, \h957e,\hf305, \hb7fb,\hffbd, \hc266,\he96f,
    \h6fe4,\hac98, \hb173,\hecc0, \hbc60,\hb42a, \h9534,\h98da,
    \hfba1,\hae12, \h2d4b,\hd736, \h0f25,\hfaab, \ha4f3,\hfceb,
    \he296,\h9123, \h257f,\h0c3d, \h9348,\haf49, \h3614,\h00bc,
    \he881,\h6f4a, \h3814,\hf200, \ha3f9,\h4043, \h9c7a,\h54c2,
    \hbc70,\h4f57, \hda41,\he7f9, \hc25a,\hd33a, \h54f4,\ha084,
    \hb17f,\h5505, \h5935,\h7cbe, \hedbd,\h15c8, \h7f97,\hc5ab,
    \hba5a,\hc7b5, \hb6f6,\hdeaf, \h3a47,\h9c3a, \h5302,\hda25,
    \h653d,\h7e6a, \h5426,\h8d49, \h51a4,\h77ea, \h5017,\hd55b,
    \hd7d2,\h5d88, \h4413,\h6c76, \h0404,\ha8c8, \hb8e5,\ha121,
    \hb81a,\h928a, \h60ed,\h5869, \h97c5,\h5b96, \heaec,\h991b,
    \h2993,\h5913, \h01fd,\hb7f1, \h088e,\h8dfa, \h9ab6,\hf6f5,
    \h3b4c,\hbf9f, \h4a5d,\he3ab, \he605,\h1d35, \ha0e1,\hd855,
    \hd36b,\h4cf1, \hf544,\hedeb, \hb0e9,\h3524, \hbebb,\h8fbd,
    \ha2d7,\h62cf, \h49c9,\h2f54, \h38b5,\hf331, \h7128,\ha454,
    \h4839,\h2905, \ha65b,\h1db8, \h851c,\h97bd, \hd675,\hcf2f
>>
S6 == MkS(S6Hex)

S7Hex == <<
    \h85e0,\h4019, \h332b,\hf567, \h662d,\hbfff, \hcfc6,\h5693,
    \h2a8d,\h7f6f, \hab9b,\hc912, \hde60,\h08a1, \h2028,\hda1f,
    \h0227,\hbce7, \h4d64,\h2916, \h18fa,\hc300, \h50f1,\h8b82,
    \h2cb2,\hcb11, \hb232,\he75c, \h4b36,\h95f2, \hb287,\h07de,
    \ha05f,\hbcf6, \hcd41,\h81e9, \he150,\h210c, \he24e,\hf1bd,
    \hb168,\hc381, \hfde4,\he789, \h5c79,\hb0d8, \h1e8b,\hfd43,
    \h4d49,\h5001, \h38be,\h4341, \h913c,\hee1d, \h92a7,\h9c3f,
    \h0897,\h66be, \hbaee,\hadf4, \h1286,\hbecf, \hb6ea,\hcb19,
    \h2660,\hc200, \h7565,\hbde4, \h6424,\h1f7a, \h8248,\hdca9,
    \hc3b3,\had66, \h2813,\h6086, \h0bd8,\hdfa8, \h356d,\h1cf2,
    \h1077,\h89be, \hb3b2,\he9ce, \h0502,\haa8f, \h0bc0,\h351e,
    \h166b,\hf52a, \heb12,\hff82, \he348,\h6911, \hd34d,\h7516,
    \h4e7b,\h3aff, \h5f43,\h671b, \h9cf6,\he037, \h4981,\hac83,
    \h3342,\h66ce, \h8c93,\h41b7, \hd0d8,\h54c0, \hcb3a,\h6c88,
    \h47bc,\h2829, \h4725,\hba37, \ha66a,\hd22b, \h7ad6,\h1f1e,
    \h0c5c,\hbafa, \h4437,\hf107, \hb6e7,\h9962, \h42d2,\hd816,
    \h0a96,\h1288, \he1a5,\hc06e, \h1374,\h9e67, \h72fc,\h081a,
    \hb1d1,\h39f7, \hf958,\h3745, \hcf19,\hdf58, \hbec3,\hf756,
    \hc06e,\hba30, \h0721,\h1b24, \h45c2,\h8829, \hc95e,\h317f,
    \hbc8e,\hc511, \h38bc,\h46e9, \hc6e6,\hfa14, \hbae8,\h584a,
    \had4e,\hbc46, \h468f,\h508b, \h7829,\h435f, \hf124,\h183b,
    \h821d,\hba9f, \haff6,\h0ff4, \hea2c,\h4e6d, \h16e3,\h9264,
    \h9254,\h4a8b, \h009b,\h4fc3, \haba6,\h8ced, \h9ac9,\h6f78,
    \h06a5,\hb79a, \hb285,\h6e6e, \h1aec,\h3ca9, \hbe83,\h8688,
    \h0e08,\h04e9, \h55f1,\hbe56, \he7e5,\h363b, \hb3a1,\hf25d,
    \hf7de,\hbb85, \h61fe,\h033c, \h1674,\h6233, \h3c03,\h4c28,
    \hda6d,\h0c74, \h79aa,\hc56c, \h3ce4,\he1ad, \h51f0,\hc802,
    \h98f8,\hf35a, \h1626,\ha49f, \heed8,\h2b29, \h1d38,\h2fe3,
    \h0c4f,\hb99a, \hbb32,\h5778, \h3ec6,\hd97b, \h6e77,\ha6a9,
    \hcb65,\h8b5c, \hd452,\h30c7, \h2bd1,\h408b, \h60c0,\h3eb7,
    \hb906,\h8d78, \ha337,\h54f4, \hf430,\hc87d, \hc8a7,\h1302,
    \hb96d,\h8c32, \hebd4,\he7be, \hbe8b,\h9d2d, \h7979,\hfb06,
    \he722,\h5308, \h8b75,\hcf77, \h11ef,\h8da4, \he083,\hc858,
    \h8d6b,\h786f, \h5a63,\h17a6, \hfa5c,\hf7a0, \h5dda,\h0033,
    \hf28e,\hbfb0, \hf5b9,\hc310, \ha0ea,\hc280, \h08b9,\h767a,
    \ha3d9,\hd2b0, \h79d3,\h4217, \h021a,\h718d, \h9ac6,\h336a,
    \h2711,\hfd60, \h4380,\h50e3, \h0699,\h08a8, \h3d7f,\hedc4,
    \h826d,\h2bef, \h4eeb,\h8476, \h488d,\hcf25, \h36c9,\hd566,
    \h28e7,\h4e41, \hc261,\h0aca, \h3d49,\ha9cf, \hbae3,\hb9df,
    \hb65f,\h8de6, \h92ae,\haf64, \h3ac7,\hd5e6, \h9ea8,\h0509,
    \hf22b,\h017d, \ha417,\h3f70, \hdd1e,\h16c3, \h15e0,\hd7f9,
    \h50b1,\hb887, \h2b9f,\h4fd5, \h625a,\hba82, \h6a01,\h7962,
    \h2ec0,\h1b9c, \h1548,\h8aa9, \hd716,\he740, \h4005,\h5a2c,
    \h93d2,\h9a22, \he32d,\hbf9a, \h0587,\h45b9, \h3453,\hdc1e,
    \hd699,\h296e, \h496c,\hff6f, \h1c9f,\h4986, \hdfe2,\hed07,
    \hb872,\h42d1, \h19de,\h7eae, \h053e,\h561a, \h15ad,\h6f8c,
    \h6662,\h6c1c, \h7154,\hc24c, \hea08,\h2b2a, \h93eb,\h2939,
    \h17dc,\hb0f0, \h58d4,\hf2ae, \h9ea2,\h94fb, \h52cf,\h564c,
    \h9883,\hfe66, \h2ec4,\h0581, \h7639,\h53c3, \h01d6,\h692e,
    \hd3a0,\hc108, \ha1e7,\h160e, \he4f2,\hdfa6, \h693e,\hd285,
    \h7490,\h4698, \h4c2b,\h0edd, \h4f75,\h7656, \h5d39,\h3378,
    \ha132,\h234f, \h3d32,\h1c5d, \hc3f5,\he194, \h4b26,\h9301,
    \hc79f,\h022f, \h3c99,\h7e7e, \h5e4f,\h9504, \h3ffa,\hfbbd,
    \h76f7,\had0e, \h2966,\h93f4, \h3d1f,\hce6f, \hc61e,\h45be,
    \hd3b5,\hab34, \hf72b,\hf9b7, \h1b04,\h34c0, \h4e72,\hb567,
    \h5592,\ha33d, \hb522,\h9301, \hcfd2,\ha87f, \h60ae,\hb767,
    \h1814,\h386b, \h30bc,\hc33d, \h38a0,\hc07d, \hfd16,\h06f2,
    \hc363,\h519b, \h589d,\hd390, \h5479,\hf8e6, \h1cb8,\hd647,
    \h97fd,\h61a9, \hea77,\h59f4, \h2d57,\h539d, \h569a,\h58cf,
    \he84e,\h63ad, \h462e,\h1b78, \h6580,\hf87e, \hf381,\h7914,
    \h91da,\h55f4, \h40a2,\h30f3, \hd198,\h8f35, \hb6e3,\h18d2,
    \h3ffa,\h50bc, \h3d40,\hf021, \hc3c0,\hbdae, \h4958,\hc24c,
    \h518f,\h36b2, \h84b1,\hd370, \h0fed,\hce83, \h878d,\hdada,
    \hf2a2,\h79c7, \h94e0,\h1be8, \h9071,\h6f4b, \h954b,\h8aa3
>>
S7 == MkS(S7Hex)

S8Hex == <<
    \he216,\h300d, \hbbdd,\hfffc, \ha7eb,\hdabd, \h3564,\h8095,
    \h7789,\hf8b7, \he6c1,\h121b, \h0e24,\h1600, \h052c,\he8b5,
    \h11a9,\hcfb0, \he595,\h2f11, \hece7,\h990a, \h9386,\hd174,
    \h2a42,\h931c, \h76e3,\h8111, \hb12d,\hef3a, \h37dd,\hddfc,
    \hde9a,\hdeb1, \h0a0c,\hc32c, \hbe19,\h7029, \h84a0,\h0940,
    \hbb24,\h3a0f, \hb4d1,\h37cf, \hb44e,\h79f0, \h049e,\hedfd,
    \h0b15,\ha15d, \h480d,\h3168, \h8bbb,\hde5a, \h669d,\hed42,
    \hc7ec,\he831, \h3f8f,\h95e7, \h72df,\h191b, \h7580,\h330d,
    \h9407,\h4251, \h5c7d,\hcdfa, \habbe,\h6d63, \haa40,\h2164,
    \hb301,\hd40a, \h02e7,\hd1ca, \h5357,\h1dae, \h7a31,\h82a2,
    \h12a8,\hddec, \hfdaa,\h335d, \h176f,\h43e8, \h71fb,\h46d4,
    \h3812,\h9022, \hce94,\h9ad4, \hb847,\h69ad, \h965b,\hd862,
    \h82f3,\hd055, \h66fb,\h9767, \h15b8,\h0b4e, \h1d5b,\h47a0,
    \h4cfd,\he06f, \hc28e,\hc4b8, \h57e8,\h726e, \h647a,\h78fc,
    \h9986,\h5d44, \h608b,\hd593, \h6c20,\h0e03, \h39dc,\h5ff6,
    \h5d0b,\h00a3, \hae63,\haff2, \h7e8b,\hd632, \h7010,\h8c0c,
    \hbbd3,\h5049, \h2998,\hdf04, \h980c,\hf42a, \h9b6d,\hf491,
    \h9e7e,\hdd53, \h0691,\h8548, \h58cb,\h7e07, \h3b74,\hef2e,
    \h522f,\hffb1, \hd247,\h08cc, \h1c7e,\h27cd, \ha4eb,\h215b,
    \h3cf1,\hd2e2, \h19b4,\h7a38, \h424f,\h7618, \h3585,\h6039,
    \h9d17,\hdee7, \h27eb,\h35e6, \hc9af,\hf67b, \h36ba,\hf5b8,
    \h09c4,\h67cd, \hc189,\h10b1, \he11d,\hbf7b, \h06cd,\h1af8,
    \h7170,\hc608, \h2d5e,\h3354, \hd4de,\h495a, \h64c6,\hd006,
    \hbcc0,\hc62c, \h3dd0,\h0db3, \h708f,\h8f34, \h77d5,\h1b42,
    \h264f,\h620f, \h24b8,\hd2bf, \h15c1,\hb79e, \h46a5,\h2564,
    \hf8d7,\he54e, \h3e37,\h8160, \h7895,\hcda5, \h859c,\h15a5,
    \he645,\h9788, \hc37b,\hc75f, \hdb07,\hba0c, \h0676,\ha3ab,
    \h7f22,\h9b1e, \h3184,\h2e7b, \h2425,\h9fd7, \hf8be,\hf472,
    \h835f,\hfcb8, \h6df4,\hc1f2, \h96f5,\hb195, \hfd0a,\hf0fc,
    \hb0fe,\h134c, \he250,\h6d3d, \h4f9b,\h12ea, \hf215,\hf225,
    \ha223,\h736f, \h9fb4,\hc428, \h25d0,\h4979, \h34c7,\h13f8,
    \hc461,\h8187, \hea7a,\h6e98, \h7cd1,\h6efc, \h1436,\h876c,
    \hf154,\h4107, \hbede,\hee14, \h56e9,\haf27, \ha04a,\ha441,
    \h3cf7,\hc899, \h92ec,\hbae6, \hdd67,\h016d, \h1516,\h82eb,
    \ha842,\heedf, \hfdba,\h60b4, \hf190,\h7b75, \h20e3,\h030f,
    \h24d8,\hc29e, \he139,\h673b, \hefa6,\h3fb8, \h7187,\h3054,
    \hb6f2,\hcf3b, \h9f32,\h6442, \hcb15,\ha4cc, \hb01a,\h4504,
    \hf1e4,\h7d8d, \h844a,\h1be5, \hbae7,\hdfdc, \h42cb,\hda70,
    \hcd7d,\hae0a, \h57e8,\h5b7a, \hd53f,\h5af6, \h20cf,\h4d8c,
    \hcea4,\hd428, \h79d1,\h30a4, \h3486,\hebfb, \h33d3,\hcddc,
    \h7785,\h3b53, \h37ef,\hfcb5, \hc506,\h8778, \he580,\hb3e6,
    \h4e68,\hb8f4, \hc5c8,\hb37e, \h0d80,\h9ea2, \h398f,\heb7c,
    \h132a,\h4f94, \h43b7,\h950e, \h2fee,\h7d1c, \h2236,\h13bd,
    \hdd06,\hcaa2, \h37df,\h932b, \hc424,\h8289, \hacf3,\hebc3,
    \h5715,\hf6b7, \hef34,\h78dd, \hf267,\h616f, \hc148,\hcbe4,
    \h9052,\h815e, \h5e41,\h0fab, \hb48a,\h2465, \h2eda,\h7fa4,
    \he87b,\h40e4, \he98e,\ha084, \h5889,\he9e1, \hefd3,\h90fc,
    \hdd07,\hd35b, \hdb48,\h5694, \h38d7,\he5b2, \h5772,\h0101,
    \h730e,\hdebc, \h5b64,\h3113, \h9491,\h7e4f, \h503c,\h2fba,
    \h646f,\h1282, \h7523,\hd24a, \he077,\h9695, \hf9c1,\h7a8f,
    \h7a5b,\h2121, \hd187,\hb896, \h2926,\h3a4d, \hba51,\h0cdf,
    \h81f4,\h7c9f, \had11,\h63ed, \hea7b,\h5965, \h1a00,\h726e,
    \h1140,\h3092, \h00da,\h6d77, \h4a0c,\hdd61, \had1f,\h4603,
    \h605b,\hdfb0, \h9eed,\hc364, \h22eb,\he6a8, \hcee7,\hd28a,
    \ha0e7,\h36a0, \h5564,\ha6b9, \h1085,\h3209, \hc7eb,\h8f37,
    \h2de7,\h05ca, \h8951,\h570f, \hdf09,\h822b, \hbd69,\h1a6c,
    \haa12,\he4f2, \h8745,\h1c0f, \he0f6,\ha27a, \h3ada,\h4819,
    \h4cf1,\h764f, \h0d77,\h1c2b, \h67cd,\hb156, \h350d,\h8384,
    \h5938,\hfa0f, \h4239,\h9ef3, \h3699,\h7b07, \h0e84,\h093d,
    \h4aa9,\h3e61, \h8360,\hd87b, \h1fa9,\h8b0c, \h1149,\h382c,
    \he976,\h25a5, \h0614,\hd1b7, \h0e25,\h244b, \h0c76,\h8347,
    \h589e,\h8d82, \h0d20,\h59d1, \ha466,\hbb1e, \hf8da,\h0a82,
    \h04f1,\h9130, \hba6e,\h4ec0, \h9926,\h5164, \h1ee7,\h230d,
    \h50b2,\had80, \heaee,\h6801, \h8db2,\ha283, \hea8b,\hf59e
>>
S8 == MkS(S8Hex)

\* ------------------------------------------------- key schedule (RFC 2.4)
\* x0123_0 .. xCDEF_0: the 128-bit key x0x1...xF as four big-endian words.
\* Result: <<K1, ..., K32>>.
KeyWords(x0123_0, x4567_0, x89AB_0, xCDEF_0) ==
    LET
        \* z0z1z2z3 = x0x1x2x3 ^ S5[xD] ^ S6[xF] ^ S7[xC] ^ S8[xE] ^ S7[x8]
        z0123_1 == X6(x0123_0, S5[B(xCDEF_0, 1)], S6[B(xCDEF_0, 3)], S7[B(xCDEF_0, 0)], S8[B(xCDEF_0, 2)], S7[B(x89AB_0, 0)])
        \* z4z5z6z7 = x8x9xAxB ^ S5[z0] ^ S6[z2] ^ S7[z1] ^ S8[z3] ^ S8[xA]
        z4567_1 == X6(x89AB_0, S5[B(z0123_1, 0)], S6[B(z0123_1, 2)], S7[B(z0123_1, 1)], S8[B(z0123_1, 3)], S8[B(x89AB_0, 2)])
        \* z8z9zAzB = xCxDxExF ^ S5[z7] ^ S6[z6] ^ S7[z5] ^ S8[z4] ^ S5[x9]
        z89AB_1 == X6(xCDEF_0, S5[B(z4567_1, 3)], S6[B(z4567_1, 2)], S7[B(z4567_1, 1)], S8[B(z4567_1, 0)], S5[B(x89AB_0, 1)])
        \* zCzDzEzF = x4x5x6x7 ^ S5[zA] ^ S6[z9] ^ S7[zB] ^ S8[z8] ^ S6[xB]
        zCDEF_1 == X6(x4567_0, S5[B(z89AB_1, 2)], S6[B(z89AB_1, 1)], S7[B(z89AB_1, 3)], S8[B(z89AB_1, 0)], S6[B(x89AB_0, 3)])
        \* K1  = S5[z8] ^ S6[z9] ^ S7[z7] ^ S8[z6] ^ S5[z2]
        K1 == X5(S5[B(z89AB_1, 0)], S6[B(z89AB_1, 1)], S7[B(z4567_1, 3)], S8[B(z4567_1, 2)], S5[B(z0123_1, 2)])
        \* K2  = S5[zA] ^ S6[zB] ^ S7[z5] ^ S8[z4] ^ S6[z6]
        K2 == X5(S5[B(z89AB_1, 2)], S6[B(z89AB_1, 3)], S7[B(z4567_1, 1)], S8[B(z4567_1, 0)], S6[B(z4567_1, 2)])
        \* K3  = S5[zC] ^ S6[zD] ^ S7[z3] ^ S8[z2] ^ S7[z9]
        K3 == X5(S5[B(zCDEF_1, 0)], S6[B(zCDEF_1, 1)], S7[B(z0123_1, 3)], S8[B(z0123_1, 2)], S7[B(z89AB_1, 1)])
        \* K4  = S5[zE] ^ S6[zF] ^ S7[z1] ^ S8[z0] ^ S8[zC]
        K4 == X5(S5[B(zCDEF_1, 2)], S6[B(zCDEF_1, 3)], S7[B(z0123_1, 1)], S8[B(z0123_1, 0)], S8[B(zCDEF_1, 0)])
        \* x0x1x2x3 = z8z9zAzB ^ S5[z5] ^ S6[z7] ^ S7[z4] ^ S8[z6] ^ S7[z0]
        x0123_2 == X6(z89AB_1, S5[B(z4567_1, 1)], S6[B(z4567_1, 3)], S7[B(z4567_1, 0)], S8[B(z4567_1, 2)], S7[B(z0123_1, 0)])
        \* x4x5x6x7 = z0z1z2z3 ^ S5[x0] ^ S6[x2] ^ S7[x1] ^ S8[x3] ^ S8[z2]
        x4567_2 == X6(z0123_1, S5[B(x0123_2, 0)], S6[B(x0123_2, 2)], S7[B(x0123_2, 1)], S8[B(x0123_2, 3)], S8[B(z0123_1, 2)])
        \* x8x9xAxB = z4z5z6z7 ^ S5[x7] ^ S6[x6] ^ S7[x5] ^ S8[x4] ^ S5[z1]
        x89AB_2 == X6(z4567_1, S5[B(x4567_2, 3)], S6[B(x4567_2, 2)], S7[B(x4567_2, 1)], S8[B(x4567_2, 0)], S5[B(z0123_1, 1)])
        \* xCxDxExF = zCzDzEzF ^ S5[xA] ^ S6[x9] ^ S7[xB] ^ S8[x8] ^ S6[z3]
        xCDEF_2 == X6(zCDEF_1, S5[B(x89AB_2, 2)], S6[B(x89AB_2, 1)], S7[B(x89AB_2, 3)], S8[B(x89AB_2, 0)], S6[B(z0123_1, 3)])
        \* K5  = S5[x3] ^ S6[x2] ^ S7[xC] ^ S8[xD] ^ S5[x8]
        K5 == X5(S5[B(x0123_2, 3)], S6[B(x0123_2, 2)], S7[B(xCDEF_2, 0)], S8[B(xCDEF_2, 1)], S5[B(x89AB_2, 0)])
        \* K6  = S5[x1] ^ S6[x0] ^ S7[xE] ^ S8[xF] ^ S6[xD]
        K6 == X5(S5[B(x0123_2, 1)], S6[B(x0123_2, 0)], S7[B(xCDEF_2, 2)], S8[B(xCDEF_2, 3)], S6[B(xCDEF_2, 1)])
        \* K7  = S5[x7] ^ S6[x6] ^ S7[x8] ^ S8[x9] ^ S7[x3]
        K7 == X5(S5[B(x4567_2, 3)], S6[B(x4567_2, 2)], S7[B(x89AB_2, 0)], S8[B(x89AB_2, 1)], S7[B(x0123_2, 3)])
        \* K8  = S5[x5] ^ S6[x4] ^ S7[xA] ^ S8[xB] ^ S8[x7]
        K8 == X5(S5[B(x4567_2, 1)], S6[B(x4567_2, 0)], S7[B(x89AB_2, 2)], S8[B(x89AB_2, 3)], S8[B(x4567_2, 3)])
        \* z0z1z2z3 = x0x1x2x3 ^ S5[xD] ^ S6[xF] ^ S7[xC] ^ S8[xE] ^ S7[x8]
        z0123_3 == X6(x0123_2, S5[B(xCDEF_2, 1)], S6[B(xCDEF_2, 3)], S7[B(xCDEF_2, 0)], S8[B(xCDEF_2, 2)], S7[B(x89AB_2, 0)])
        \* z4z5z6z7 = x8x9xAxB ^ S5[z0] ^ S6[z2] ^ S7[z1] ^ S8[z3] ^ S8[xA]
        z4567_3 == X6(x89AB_2, S5[B(z0123_3, 0)], S6[B(z0123_3, 2)], S7[B(z0123_3, 1)], S8[B(z0123_3, 3)], S8[B(x89AB_2, 2)])
        \* z8z9zAzB = xCxDxExF ^ S5[z7] ^ S6[z6] ^ S7[z5] ^ S8[z4] ^ S5[x9]
        z89AB_3 == X6(xCDEF_2, S5[B(z4567_3, 3)], S6[B(z4567_3, 2)], S7[B(z4567_3, 1)], S8[B(z4567_3, 0)], S5[B(x89AB_2, 1)])
        \* zCzDzEzF = x4x5x6x7 ^ S5[zA] ^ S6[z9] ^ S7[zB] ^ S8[z8] ^ S6[xB]
        zCDEF_3 == X6(x4567_2, S5[B(z89AB_3, 2)], S6[B(z89AB_3, 1)], S7[B(z89AB_3, 3)], S8[B(z89AB_3, 0)], S6[B(x89AB_2, 3)])
        \* K9  = S5[z3] ^ S6[z2] ^ S7[zC] ^ S8[zD] ^ S5[z9]
        K9 == X5(S5[B(z0123_3, 3)], S6[B(z0123_3, 2)], S7[B(zCDEF_3, 0)], S8[B(zCDEF_3, 1)], S5[B(z89AB_3, 1)])
        \* K10 = S5[z1] ^ S6[z0] ^ S7[zE] ^ S8[zF] ^ S6[zC]
        K10 == X5(S5[B(z0123_3, 1)], S6[B(z0123_3, 0)], S7[B(zCDEF_3, 2)], S8[B(zCDEF_3, 3)], S6[B(zCDEF_3, 0)])
        \* K11 = S5[z7] ^ S6[z6] ^ S7[z8] ^ S8[z9] ^ S7[z2]
        K11 == X5(S5[B(z4567_3, 3)], S6[B(z4567_3, 2)], S7[B(z89AB_3, 0)], S8[B(z89AB_3, 1)], S7[B(z0123_3, 2)])
        \* K12 = S5[z5] ^ S6[z4] ^ S7[zA] ^ S8[zB] ^ S8[z6]
        K12 == X5(S5[B(z4567_3, 1)], S6[B(z4567_3, 0)], S7[B(z89AB_3, 2)], S8[B(z89AB_3, 3)], S8[B(z4567_3, 2)])
        \* x0x1x2x3 = z8z9zAzB ^ S5[z5] ^ S6[z7] ^ S7[z4] ^ S8[z6] ^ S7[z0]
        x0123_4 == X6(z89AB_3, S5[B(z4567_3, 1)], S6[B(z4567_3, 3)], S7[B(z4567_3, 0)], S8[B(z4567_3, 2)], S7[B(z0123_3, 0)])
        \* x4x5x6x7 = z0z1z2z3 ^ S5[x0] ^ S6[x2] ^ S7[x1] ^ S8[x3] ^ S8[z2]
        x4567_4 == X6(z0123_3, S5[B(x0123_4, 0)], S6[B(x0123_4, 2)], S7[B(x0123_4, 1)], S8[B(x0123_4, 3)], S8[B(z0123_3, 2)])
        \* x8x9xAxB = z4z5z6z7 ^ S5[x7] ^ S6[x6] ^ S7[x5] ^ S8[x4] ^ S5[z1]
        x89AB_4 == X6(z4567_3, S5[B(x4567_4, 3)], S6[B(x4567_4, 2)], S7[B(x4567_4, 1)], S8[B(x4567_4, 0)], S5[B(z0123_3, 1)])
        \* xCxDxExF = zCzDzEzF ^ S5[xA] ^ S6[x9] ^ S7[xB] ^ S8[x8] ^ S6[z3]
        xCDEF_4 == X6(zCDEF_3, S5[B(x89AB_4, 2)], S6[B(x89AB_4, 1)], S7[B(x89AB_4, 3)], S8[B(x89AB_4, 0)], S6[B(z0123_3, 3)])
        \* K13 = S5[x8] ^ S6[x9] ^ S7[x7] ^ S8[x6] ^ S5[x3]
        K13 == X5(S5[B(x89AB_4, 0)], S6[B(x89AB_4, 1)], S7[B(x4567_4, 3)], S8[B(x4567_4, 2)], S5[B(x0123_4, 3)])
        \* K14 = S5[xA] ^ S6[xB] ^ S7[x5] ^ S8[x4] ^ S6[x7]
        K14 == X5(S5[B(x89AB_4, 2)], S6[B(x89AB_4, 3)], S7[B(x4567_4, 1)], S8[B(x4567_4, 0)], S6[B(x4567_4, 3)])
        \* K15 = S5[xC] ^ S6[xD] ^ S7[x3] ^ S8[x2] ^ S7[x8]
        K15 == X5(S5[B(xCDEF_4, 0)], S6[B(xCDEF_4, 1)], S7[B(x0123_4, 3)], S8[B(x0123_4, 2)], S7[B(x89AB_4, 0)])
        \* K16 = S5[xE] ^ S6[xF] ^ S7[x1] ^ S8[x0] ^ S8[xD]
        K16 == X5(S5[B(xCDEF_4, 2)], S6[B(xCDEF_4, 3)], S7[B(x0123_4, 1)], S8[B(x0123_4, 0)], S8[B(xCDEF_4, 1)])
        \* z0z1z2z3 = x0x1x2x3 ^ S5[xD] ^ S6[xF] ^ S7[xC] ^ S8[xE] ^ S7[x8]
        z0123_5 == X6(x0123_4, S5[B(xCDEF_4, 1)], S6[B(xCDEF_4, 3)], S7[B(xCDEF_4, 0)], S8[B(xCDEF_4, 2)], S7[B(x89AB_4, 0)])
        \* z4z5z6z7 = x8x9xAxB ^ S5[z0] ^ S6[z2] ^ S7[z1] ^ S8[z3] ^ S8[xA]
        z4567_5 == X6(x89AB_4, S5[B(z0123_5, 0)], S6[B(z0123_5, 2)], S7[B(z0123_5, 1)], S8[B(z0123_5, 3)], S8[B(x89AB_4, 2)])
        \* z8z9zAzB = xCxDxExF ^ S5[z7] ^ S6[z6] ^ S7[z5] ^ S8[z4] ^ S5[x9]
        z89AB_5 == X6(xCDEF_4, S5[B(z4567_5, 3)], S6[B(z4567_5, 2)], S7[B(z4567_5, 1)], S8[B(z4567_5, 0)], S5[B(x89AB_4, 1)])
        \* zCzDzEzF = x4x5x6x7 ^ S5[zA] ^ S6[z9] ^ S7[zB] ^ S8[z8] ^ S6[xB]
        zCDEF_5 == X6(x4567_4, S5[B(z89AB_5, 2)], S6[B(z89AB_5, 1)], S7[B(z89AB_5, 3)], S8[B(z89AB_5, 0)], S6[B(x89AB_4, 3)])
        \* K17 = S5[z8] ^ S6[z9] ^ S7[z7] ^ S8[z6] ^ S5[z2]
        K17 == X5(S5[B(z89AB_5, 0)], S6[B(z89AB_5, 1)], S7[B(z4567_5, 3)], S8[B(z4567_5, 2)], S5[B(z0123_5, 2)])
        \* K18 = S5[zA] ^ S6[zB] ^ S7[z5] ^ S8[z4] ^ S6[z6]
        K18 == X5(S5[B(z89AB_5, 2)], S6[B(z89AB_5, 3)], S7[B(z4567_5, 1)], S8[B(z4567_5, 0)], S6[B(z4567_5, 2)])
        \* K19 = S5[zC] ^ S6[zD] ^ S7[z3] ^ S8[z2] ^ S7[z9]
        K19 == X5(S5[B(zCDEF_5, 0)], S6[B(zCDEF_5, 1)], S7[B(z0123_5, 3)], S8[B(z0123_5, 2)], S7[B(z89AB_5, 1)])
        \* K20 = S5[zE] ^ S6[zF] ^ S7[z1] ^ S8[z0] ^ S8[zC]
        K20 == X5(S5[B(zCDEF_5, 2)], S6[B(zCDEF_5, 3)], S7[B(z0123_5, 1)], S8[B(z0123_5, 0)], S8[B(zCDEF_5, 0)])
        \* x0x1x2x3 = z8z9zAzB ^ S5[z5] ^ S6[z7] ^ S7[z4] ^ S8[z6] ^ S7[z0]
        x0123_6 == X6(z89AB_5, S5[B(z4567_5, 1)], S6[B(z4567_5, 3)], S7[B(z4567_5, 0)], S8[B(z4567_5, 2)], S7[B(z0123_5, 0)])
        \* x4x5x6x7 = z0z1z2z3 ^ S5[x0] ^ S6[x2] ^ S7[x1] ^ S8[x3] ^ S8[z2]
        x4567_6 == X6(z0123_5, S5[B(x0123_6, 0)], S6[B(x0123_6, 2)], S7[B(x0123_6, 1)], S8[B(x0123_6, 3)], S8[B(z0123_5, 2)])
        \* x8x9xAxB = z4z5z6z7 ^ S5[x7] ^ S6[x6] ^ S7[x5] ^ S8[x4] ^ S5[z1]
        x89AB_6 == X6(z4567_5, S5[B(x4567_6, 3)], S6[B(x4567_6, 2)], S7[B(x4567_6, 1)], S8[B(x4567_6, 0)], S5[B(z0123_5, 1)])
        \* xCxDxExF = zCzDzEzF ^ S5[xA] ^ S6[x9] ^ S7[xB] ^ S8[x8] ^ S6[z3]
        xCDEF_6 == X6(zCDEF_5, S5[B(x89AB_6, 2)], S6[B(x89AB_6, 1)], S7[B(x89AB_6, 3)], S8[B(x89AB_6, 0)], S6[B(z0123_5, 3)])
        \* K21 = S5[x3] ^ S6[x2] ^ S7[xC] ^ S8[xD] ^ S5[x8]
        K21 == X5(S5[B(x0123_6, 3)], S6[B(x0123_6, 2)], S7[B(xCDEF_6, 0)], S8[B(xCDEF_6, 1)], S5[B(x89AB_6, 0)])
        \* K22 = S5[x1] ^ S6[x0] ^ S7[xE] ^ S8[xF] ^ S6[xD]
        K22 == X5(S5[B(x0123_6, 1)], S6[B(x0123_6, 0)], S7[B(xCDEF_6, 2)], S8[B(xCDEF_6, 3)], S6[B(xCDEF_6, 1)])
        \* K23 = S5[x7] ^ S6[x6] ^ S7[x8] ^ S8[x9] ^ S7[x3]
        K23 == X5(S5[B(x4567_6, 3)], S6[B(x4567_6, 2)], S7[B(x89AB_6, 0)], S8[B(x89AB_6, 1)], S7[B(x0123_6, 3)])
        \* K24 = S5[x5] ^ S6[x4] ^ S7[xA] ^ S8[xB] ^ S8[x7]
        K24 == X5(S5[B(x4567_6, 1)], S6[B(x4567_6, 0)], S7[B(x89AB_6, 2)], S8[B(x89AB_6, 3)], S8[B(x4567_6, 3)])
        \* z0z1z2z3 = x0x1x2x3 ^ S5[xD] ^ S6[xF] ^ S7[xC] ^ S8[xE] ^ S7[x8]
        z0123_7 == X6(x0123_6, S5[B(xCDEF_6, 1)], S6[B(xCDEF_6, 3)], S7[B(xCDEF_6, 0)], S8[B(xCDEF_6, 2)], S7[B(x89AB_6, 0)])
        \* z4z5z6z7 = x8x9xAxB ^ S5[z0] ^ S6[z2] ^ S7[z1] ^ S8[z3] ^ S8[xA]
        z4567_7 == X6(x89AB_6, S5[B(z0123_7, 0)], S6[B(z0123_7, 2)], S7[B(z0123_7, 1)], S8[B(z0123_7, 3)], S8[B(x89AB_6, 2)])
        \* z8z9zAzB = xCxDxExF ^ S5[z7] ^ S6[z6] ^ S7[z5] ^ S8[z4] ^ S5[x9]
        z89AB_7 == X6(xCDEF_6, S5[B(z4567_7, 3)], S6[B(z4567_7, 2)], S7[B(z4567_7, 1)], S8[B(z4567_7, 0)], S5[B(x89AB_6, 1)])
        \* zCzDzEzF = x4x5x6x7 ^ S5[zA] ^ S6[z9] ^ S7[zB] ^ S8[z8] ^ S6[xB]
        zCDEF_7 == X6(x4567_6, S5[B(z89AB_7, 2)], S6[B(z89AB_7, 1)], S7[B(z89AB_7, 3)], S8[B(z89AB_7, 0)], S6[B(x89AB_6, 3)])
        \* K25 = S5[z3] ^ S6[z2] ^ S7[zC] ^ S8[zD] ^ S5[z9]
        K25 == X5(S5[B(z0123_7, 3)], S6[B(z0123_7, 2)], S7[B(zCDEF_7, 0)], S8[B(zCDEF_7, 1)], S5[B(z89AB_7, 1)])
        \* K26 = S5[z1] ^ S6[z0] ^ S7[zE] ^ S8[zF] ^ S6[zC]
        K26 == X5(S5[B(z0123_7, 1)], S6[B(z0123_7, 0)], S7[B(zCDEF_7, 2)], S8[B(zCDEF_7, 3)], S6[B(zCDEF_7, 0)])
        \* K27 = S5[z7] ^ S6[z6] ^ S7[z8] ^ S8[z9] ^ S7[z2]
        K27 == X5(S5[B(z4567_7, 3)], S6[B(z4567_7, 2)], S7[B(z89AB_7, 0)], S8[B(z89AB_7, 1)], S7[B(z0123_7, 2)])
        \* K28 = S5[z5] ^ S6[z4] ^ S7[zA] ^ S8[zB] ^ S8[z6]
        K28 == X5(S5[B(z4567_7, 1)], S6[B(z4567_7, 0)], S7[B(z89AB_7, 2)], S8[B(z89AB_7, 3)], S8[B(z4567_7, 2)])
        \* x0x1x2x3 = z8z9zAzB ^ S5[z5] ^ S6[z7] ^ S7[z4] ^ S8[z6] ^ S7[z0]
        x0123_8 == X6(z89AB_7, S5[B(z4567_7, 1)], S6[B(z4567_7, 3)], S7[B(z4567_7, 0)], S8[B(z4567_7, 2)], S7[B(z0123_7, 0)])
        \* x4x5x6x7 = z0z1z2z3 ^ S5[x0] ^ S6[x2] ^ S7[x1] ^ S8[x3] ^ S8[z2]
        x4567_8 == X6(z0123_7, S5[B(x0123_8, 0)], S6[B(x0123_8, 2)], S7[B(x0123_8, 1)], S8[B(x0123_8, 3)], S8[B(z0123_7, 2)])
        \* x8x9xAxB = z4z5z6z7 ^ S5[x7] ^ S6[x6] ^ S7[x5] ^ S8[x4] ^ S5[z1]
        x89AB_8 == X6(z4567_7, S5[B(x4567_8, 3)], S6[B(x4567_8, 2)], S7[B(x4567_8, 1)], S8[B(x4567_8, 0)], S5[B(z0123_7, 1)])
        \* xCxDxExF = zCzDzEzF ^ S5[xA] ^ S6[x9] ^ S7[xB] ^ S8[x8] ^ S6[z3]
        xCDEF_8 == X6(zCDEF_7, S5[B(x89AB_8, 2)], S6[B(x89AB_8, 1)], S7[B(x89AB_8, 3)], S8[B(x89AB_8, 0)], S6[B(z0123_7, 3)])
        \* K29 = S5[x8] ^ S6[x9] ^ S7[x7] ^ S8[x6] ^ S5[x3]
        K29 == X5(S5[B(x89AB_8, 0)], S6[B(x89AB_8, 1)], S7[B(x4567_8, 3)], S8[B(x4567_8, 2)], S5[B(x0123_8, 3)])
        \* K30 = S5[xA] ^ S6[xB] ^ S7[x5] ^ S8[x4] ^ S6[x7]
        K30 == X5(S5[B(x89AB_8, 2)], S6[B(x89AB_8, 3)], S7[B(x4567_8, 1)], S8[B(x4567_8, 0)], S6[B(x4567_8, 3)])
        \* K31 = S5[xC] ^ S6[xD] ^ S7[x3] ^ S8[x2] ^ S7[x8]
        K31 == X5(S5[B(xCDEF_8, 0)], S6[B(xCDEF_8, 1)], S7[B(x0123_8, 3)], S8[B(x0123_8, 2)], S7[B(x89AB_8, 0)])
        \* K32 = S5[xE] ^ S6[xF] ^ S7[x1] ^ S8[x0] ^ S8[xD]
        K32 == X5(S5[B(xCDEF_8, 2)], S6[B(xCDEF_8, 3)], S7[B(x0123_8, 1)], S8[B(x0123_8, 0)], S8[B(xCDEF_8, 1)])
    IN <<K1, K2, K3, K4, K5, K6, K7, K8, K9, K10, K11, K12, K13, K14, K15, K16,
         K17, K18, K19, K20, K21, K22, K23, K24, K25, K26, K27, K28, K29, K30, K31, K32>>

\* big-endian 4 bytes -> word
WordBE(bs, o) == <<256 * bs[o + 2] + bs[o + 3], 256 * bs[o] + bs[o + 1]>>
BytesBE(w) == <<w[2] \div 256, w[2] % 256, w[1] \div 256, w[1] % 256>>

\* RFC 2.5: keys shorter than 128 bits are padded with zero bytes in the rightmost positions;
\* 12 rounds for key sizes up to and including 80 bits, 16 rounds above.
\* RFC 2.4: Km_i = K_i, Kr_i = least significant 5 bits of K_{16+i}.
Schedule(key) ==
    LET n == Len(key)
        pk == [i \in 1..16 |-> IF i <= n THEN key[i] ELSE 0]
        K == TLCEval(KeyWords(WordBE(pk, 1), WordBE(pk, 5), WordBE(pk, 9), WordBE(pk, 13)))
    IN [km |-> TLCEval([i \in 1..16 |-> K[i]]),
        kr |-> TLCEval([i \in 1..16 |-> K[16 + i][1] % 32]),
        rounds |-> IF 8 * n <= 80 THEN 12 ELSE 16]

\* ------------------------------------------------ round functions (RFC 2.2)
\* Type 1:  I = ((Km + D) <<< Kr);  f = ((S1[Ia] ^ S2[Ib]) - S3[Ic]) + S4[Id]
F1(D, km, kr) == LET I == Rol32(Add32(km, D), kr)
                 IN Add32(Sub32(Xor32(S1[B(I, 0)], S2[B(I, 1)]), S3[B(I, 2)]), S4[B(I, 3)])
\* Type 2:  I = ((Km ^ D) <<< Kr);  f = ((S1[Ia] - S2[Ib]) + S3[Ic]) ^ S4[Id]
F2(D, km, kr) == LET I == Rol32(Xor32(km, D), kr)
                 IN Xor32(Add32(Sub32(S1[B(I, 0)], S2[B(I, 1)]), S3[B(I, 2)]), S4[B(I, 3)])
\* Type 3:  I = ((Km - D) <<< Kr);  f = ((S1[Ia] + S2[Ib]) ^ S3[Ic]) - S4[Id]
F3(D, km, kr) == LET I == Rol32(Sub32(km, D), kr)
                 IN Sub32(Xor32(Add32(S1[B(I, 0)], S2[B(I, 1)]), S3[B(I, 2)]), S4[B(I, 3)])
\* Rounds 1, 4, 7, 10, 13, 16 use Type 1; 2, 5, 8, 11, 14 Type 2; 3, 6, 9, 12, 15 Type 3.
F(i, D, km, kr) == IF i % 3 = 1 THEN F1(D, km, kr)
                   ELSE IF i % 3 = 2 THEN F2(D, km, kr)
                   ELSE F3(D, km, kr)

\* ------------------------------------------------------ the cipher (RFC 2.1)
\* L_i = R_{i-1};  R_i = L_{i-1} ^ f(R_{i-1}, Km_i, Kr_i)
Round(ks, i, L, R) == <<R, Xor32(L, F(i, R, ks.km[i], ks.kr[i]))>>

RECURSIVE EncFrom(_, _, _)
EncFrom(ks, i, LR) ==
    IF i > ks.rounds THEN LR ELSE EncFrom(ks, i + 1, TLCEval(Round(ks, i, LR[1], LR[2])))
\* decryption: identical, subkey pairs used in reverse order
RECURSIVE DecFrom(_, _, _)
DecFrom(ks, i, LR) ==
    IF i < 1 THEN LR ELSE DecFrom(ks, i - 1, TLCEval(Round(ks, i, LR[1], LR[2])))

\* (L0, R0) <- block;  output = (R_n, L_n)
Encrypt(ks, in) == LET LR == EncFrom(ks, 1, <<WordBE(in, 1), WordBE(in, 5)>>)
                   IN BytesBE(LR[2]) \o BytesBE(LR[1])
Decrypt(ks, in) == LET LR == DecFrom(ks, ks.rounds, <<WordBE(in, 1), WordBE(in, 5)>>)
                   IN BytesBE(LR[2]) \o BytesBE(LR[1])

\* ------------------------------------------------- conformance interface
Cast5Sched(type, key, x) == Schedule(key)
Cast5Enc(ks, in) == Encrypt(ks, in)
Cast5Dec(ks, in) == Decrypt(ks, in)
=============================================================================
