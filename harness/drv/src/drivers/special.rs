use super::*;
pub fn hazmat(_cx: &mut Ctx, _args: &Args, _rng: &mut Rng) -> i32 { 2 }
pub fn bcrypt(_cx: &mut Ctx, _args: &Args, _rng: &mut Rng) -> i32 { 2 }
pub fn wblock(_cx: &mut Ctx, _args: &Args, _rng: &mut Rng) -> i32 { 2 }
