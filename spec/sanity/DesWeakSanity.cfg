SPECIFICATION Spec
INVARIANTS Complementation ParityIgnored RoundKeyCount WeakInvolution SemiWeakPairs AllDifferent NeighbourNotWeak
CHECK_DEADLOCK FALSE
