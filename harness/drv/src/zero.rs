//! Storage observation around `drop_in_place` (C16).  Records images only; TLC classifies offsets.

use crate::cat::{Ct, Route};
use std::alloc::{Layout, alloc, dealloc};

pub struct DropObs {
    pub size: usize,
    pub before: Vec<u8>,
    pub after: Vec<u8>,
}

/// Uninitialised bytes of a value (padding, the unused tail of a union arm) hold whatever the stack held
/// before.  So that such bytes are recognisable (they follow the fill pattern, like untouched heap bytes),
/// the stack below the current frame is overwritten with the fill pattern right before the constructing call.
pub static SCRUB_FILL: core::sync::atomic::AtomicU8 = core::sync::atomic::AtomicU8::new(0);
/// what the detection hook is set to for the whole run (`--force-off 1`)
pub static FORCE_OFF_RUN: core::sync::atomic::AtomicBool = core::sync::atomic::AtomicBool::new(false);
#[inline(never)]
pub fn scrub() {
    let fill = SCRUB_FILL.load(core::sync::atomic::Ordering::Relaxed);
    let mut a = [0u8; 192 * 1024];
    for b in a.iter_mut() {
        *b = fill;
    }
    std::hint::black_box(&mut a);
}

/// generic clone through a function pointer chosen at the concrete type (see `types.rs`)
pub fn probe<T: Ct>(key: &[u8], fill: u8, route: Route) -> Option<DropObs> {
    let size = core::mem::size_of::<T>();
    let layout = Layout::new::<T>();
    if size == 0 {
        return None;
    }
    // build the value first (on the stack / wherever), then move it into the observed storage
    SCRUB_FILL.store(fill, core::sync::atomic::Ordering::Relaxed);
    let val: T = match route {
        Route::New => {
            scrub();
            T::new_slice(key).ok()?
        }
        Route::Clone => {
            let orig = T::new_slice(key).ok()?;
            scrub();
            T::clone_self(&orig)?
        }
        // from_enc_key scrubs between building the Enc instance and converting it
        Route::FromRef => T::from_enc_key(key, true)?,
        Route::FromVal => T::from_enc_key(key, false)?,
        // an instance keyed differently is overwritten by clone_from: neither the old nor the new key may survive the drop
        Route::CloneFrom => {
            let orig = T::new_slice(key).ok()?;
            let other_key: Vec<u8> = key.iter().map(|b| b ^ 0x5A).collect();
            let mut other = T::new_slice(&other_key).ok()?;
            scrub();
            if !other.c_clone_from(&orig) {
                return None;
            }
            other
        }
        // hook builds: the overwritten instance and the source live in different union arms (the target was built while
        // detection answered the other way); afterwards the hook is put back to what the run uses
        Route::CloneFromOntoSoft | Route::CloneFromOntoHw => {
            if !crate::drivers::special::hook_present() || T::FAMILY != "AES" {
                return None;
            }
            let target_soft = route == Route::CloneFromOntoSoft;
            let restore = FORCE_OFF_RUN.load(core::sync::atomic::Ordering::Relaxed);
            crate::drivers::special::set_force_off(!target_soft);
            let orig = T::new_slice(key).ok();
            crate::drivers::special::set_force_off(target_soft);
            let other_key: Vec<u8> = key.iter().map(|b| b ^ 0x5A).collect();
            let other = T::new_slice(&other_key).ok();
            crate::drivers::special::set_force_off(restore);
            let (orig, mut other) = (orig?, other?);
            scrub();
            if !other.c_clone_from(&orig) {
                return None;
            }
            other
        }
        Route::CloneOfFrom => {
            let orig = T::from_enc_key(key, true)?;
            scrub();
            T::clone_self(&orig)?
        }
    };
    unsafe {
        let p = alloc(layout);
        if p.is_null() {
            return None;
        }
        core::ptr::write_bytes(p, fill, size);
        core::ptr::write(p as *mut T, val);
        let before = core::slice::from_raw_parts(p, size).to_vec();
        core::ptr::drop_in_place(p as *mut T);
        let after = core::slice::from_raw_parts(p, size).to_vec();
        dealloc(p, layout);
        Some(DropObs { size, before, after })
    }
}
