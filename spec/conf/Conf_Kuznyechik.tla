------------------------------ MODULE Conf_Kuznyechik ------------------------------
EXTENDS Kuznyechik, Json, IOUtils
VARIABLES tpos, inst
Rec == ndJsonDeserialize(IOEnv.TRACE)
OSched(t, k, x) == KuznyechikSched(t, k, x)
OEnc(ks, b) == KuznyechikEnc(ks, b)
ODec(ks, b) == KuznyechikDec(ks, b)
ExtraKinds == {}
INSTANCE ConfBase
=============================================================================
