------------------------------ MODULE Conf_Speck ------------------------------
EXTENDS Speck, Json, IOUtils
VARIABLES tpos, inst
Rec == ndJsonDeserialize(IOEnv.TRACE)
OSched(t, k, x) == SpeckSched(t, k, x)
OEnc(ks, b) == SpeckEnc(ks, b)
ODec(ks, b) == SpeckDec(ks, b)
ExtraKinds == {}
INSTANCE ConfBase
=============================================================================
