//! Software model of the AArch64 NEON / Cryptography-Extension intrinsics used by `aes/src/armv8*` and
//! `kuznyechik/src/neon/*`, so that those sources can be compiled and executed on an x86-64 host
//! (shadow configurations `aes-armv8`, `kuz-neon`).  Semantics follow the Arm ARM pseudo-code
//! (AESE = SubBytes(ShiftRows(op1 EOR op2)), AESD = InvSubBytes(InvShiftRows(op1 EOR op2)), AESMC, AESIMC,
//! TBL with out-of-range indices giving 0, ZIP1/ZIP2, little-endian lane numbering).
//! This crate is part of the trusted base of those configurations only; every result it produces is still
//! compared by TLC against the FIPS-197 / GOST specification.
#![no_std]
#![allow(non_camel_case_types, clippy::missing_safety_doc)]

#[derive(Clone, Copy, Debug, PartialEq, Eq, Default)]
#[repr(C, align(16))]
pub struct uint8x16_t(pub [u8; 16]);
#[derive(Clone, Copy, Debug, PartialEq, Eq, Default)]
#[repr(C, align(16))]
pub struct uint16x8_t(pub [u16; 8]);
#[derive(Clone, Copy, Debug, PartialEq, Eq, Default)]
#[repr(C, align(16))]
pub struct uint32x4_t(pub [u32; 4]);
#[derive(Clone, Copy, Debug, PartialEq, Eq, Default)]
#[repr(C, align(8))]
pub struct uint8x8_t(pub [u8; 8]);
#[derive(Clone, Copy, Debug, PartialEq, Eq, Default)]
#[repr(C)]
pub struct uint8x16x4_t(pub uint8x16_t, pub uint8x16_t, pub uint8x16_t, pub uint8x16_t);

const fn xtime(a: u8) -> u8 {
    (a << 1) ^ (if a & 0x80 != 0 { 0x1b } else { 0 })
}
const fn gmul(mut a: u8, mut b: u8) -> u8 {
    let mut r = 0u8;
    let mut i = 0;
    while i < 8 {
        if b & 1 != 0 {
            r ^= a;
        }
        a = xtime(a);
        b >>= 1;
        i += 1;
    }
    r
}
const fn ginv(a: u8) -> u8 {
    // a^254
    let mut r = 1u8;
    let mut i = 0;
    while i < 254 {
        r = gmul(r, a);
        i += 1;
    }
    if a == 0 { 0 } else { r }
}
const fn sbox_table() -> [u8; 256] {
    let mut t = [0u8; 256];
    let mut x = 0usize;
    while x < 256 {
        let b = ginv(x as u8);
        t[x] = b ^ b.rotate_left(1) ^ b.rotate_left(2) ^ b.rotate_left(3) ^ b.rotate_left(4) ^ 0x63;
        x += 1;
    }
    t
}
const fn inv_table(t: &[u8; 256]) -> [u8; 256] {
    let mut r = [0u8; 256];
    let mut x = 0usize;
    while x < 256 {
        r[t[x] as usize] = x as u8;
        x += 1;
    }
    r
}
static SBOX: [u8; 256] = sbox_table();
static INV_SBOX: [u8; 256] = inv_table(&SBOX);

fn shift_rows(s: [u8; 16]) -> [u8; 16] {
    let mut o = [0u8; 16];
    for c in 0..4 {
        for r in 0..4 {
            o[r + 4 * c] = s[r + 4 * ((c + r) % 4)];
        }
    }
    o
}
fn inv_shift_rows(s: [u8; 16]) -> [u8; 16] {
    let mut o = [0u8; 16];
    for c in 0..4 {
        for r in 0..4 {
            o[r + 4 * c] = s[r + 4 * ((c + 4 - r) % 4)];
        }
    }
    o
}
fn mix(s: [u8; 16], m: [u8; 4]) -> [u8; 16] {
    let mut o = [0u8; 16];
    for c in 0..4 {
        for r in 0..4 {
            let mut v = 0u8;
            for k in 0..4 {
                v ^= gmul(m[(k + 4 - r) % 4], s[k + 4 * c]);
            }
            o[r + 4 * c] = v;
        }
    }
    o
}

#[inline]
pub unsafe fn vld1q_u8(p: *const u8) -> uint8x16_t {
    let mut v = [0u8; 16];
    core::ptr::copy_nonoverlapping(p, v.as_mut_ptr(), 16);
    uint8x16_t(v)
}
#[inline]
pub unsafe fn vst1q_u8(p: *mut u8, a: uint8x16_t) {
    core::ptr::copy_nonoverlapping(a.0.as_ptr(), p, 16);
}
#[inline]
pub unsafe fn veorq_u8(a: uint8x16_t, b: uint8x16_t) -> uint8x16_t {
    uint8x16_t(core::array::from_fn(|i| a.0[i] ^ b.0[i]))
}
#[inline]
pub unsafe fn vorrq_u8(a: uint8x16_t, b: uint8x16_t) -> uint8x16_t {
    uint8x16_t(core::array::from_fn(|i| a.0[i] | b.0[i]))
}
#[inline]
pub unsafe fn vsubq_u8(a: uint8x16_t, b: uint8x16_t) -> uint8x16_t {
    uint8x16_t(core::array::from_fn(|i| a.0[i].wrapping_sub(b.0[i])))
}
#[inline]
pub unsafe fn vdupq_n_u8(v: u8) -> uint8x16_t {
    uint8x16_t([v; 16])
}
#[inline]
pub unsafe fn vdupq_n_u32(v: u32) -> uint32x4_t {
    uint32x4_t([v; 4])
}
#[inline]
pub unsafe fn vreinterpretq_u8_u32(a: uint32x4_t) -> uint8x16_t {
    let mut o = [0u8; 16];
    for i in 0..4 {
        o[4 * i..4 * i + 4].copy_from_slice(&a.0[i].to_le_bytes());
    }
    uint8x16_t(o)
}
#[inline]
pub unsafe fn vreinterpretq_u32_u8(a: uint8x16_t) -> uint32x4_t {
    uint32x4_t(core::array::from_fn(|i| u32::from_le_bytes([a.0[4 * i], a.0[4 * i + 1], a.0[4 * i + 2], a.0[4 * i + 3]])))
}
#[inline]
pub unsafe fn vreinterpretq_u16_u8(a: uint8x16_t) -> uint16x8_t {
    uint16x8_t(core::array::from_fn(|i| u16::from_le_bytes([a.0[2 * i], a.0[2 * i + 1]])))
}
#[inline]
pub unsafe fn vgetq_lane_u32(a: uint32x4_t, lane: i32) -> u32 {
    a.0[lane as usize]
}
#[inline]
pub unsafe fn vgetq_lane_u16(a: uint16x8_t, lane: i32) -> u16 {
    a.0[lane as usize]
}
#[inline]
pub unsafe fn vshlq_n_u16(a: uint16x8_t, n: i32) -> uint16x8_t {
    uint16x8_t(core::array::from_fn(|i| if n >= 16 { 0 } else { a.0[i] << n }))
}
#[inline]
pub unsafe fn vcreate_u8(v: u64) -> uint8x8_t {
    uint8x8_t(v.to_le_bytes())
}
#[inline]
pub unsafe fn vcombine_u8(lo: uint8x8_t, hi: uint8x8_t) -> uint8x16_t {
    let mut o = [0u8; 16];
    o[..8].copy_from_slice(&lo.0);
    o[8..].copy_from_slice(&hi.0);
    uint8x16_t(o)
}
#[inline]
pub unsafe fn vzip1q_u8(a: uint8x16_t, b: uint8x16_t) -> uint8x16_t {
    uint8x16_t(core::array::from_fn(|i| if i % 2 == 0 { a.0[i / 2] } else { b.0[i / 2] }))
}
#[inline]
pub unsafe fn vzip2q_u8(a: uint8x16_t, b: uint8x16_t) -> uint8x16_t {
    uint8x16_t(core::array::from_fn(|i| if i % 2 == 0 { a.0[8 + i / 2] } else { b.0[8 + i / 2] }))
}
#[inline]
pub unsafe fn vqtbl4q_u8(t: uint8x16x4_t, idx: uint8x16_t) -> uint8x16_t {
    let tab = [t.0 .0, t.1 .0, t.2 .0, t.3 .0];
    uint8x16_t(core::array::from_fn(|i| {
        let j = idx.0[i] as usize;
        if j < 64 { tab[j / 16][j % 16] } else { 0 }
    }))
}
/// AESE: AddRoundKey, then ShiftRows, then SubBytes
#[inline]
pub unsafe fn vaeseq_u8(data: uint8x16_t, key: uint8x16_t) -> uint8x16_t {
    let x: [u8; 16] = core::array::from_fn(|i| data.0[i] ^ key.0[i]);
    let s = shift_rows(x);
    uint8x16_t(core::array::from_fn(|i| SBOX[s[i] as usize]))
}
/// AESD: AddRoundKey, then InvShiftRows, then InvSubBytes
#[inline]
pub unsafe fn vaesdq_u8(data: uint8x16_t, key: uint8x16_t) -> uint8x16_t {
    let x: [u8; 16] = core::array::from_fn(|i| data.0[i] ^ key.0[i]);
    let s = inv_shift_rows(x);
    uint8x16_t(core::array::from_fn(|i| INV_SBOX[s[i] as usize]))
}
#[inline]
pub unsafe fn vaesmcq_u8(data: uint8x16_t) -> uint8x16_t {
    uint8x16_t(mix(data.0, [2, 3, 1, 1]))
}
#[inline]
pub unsafe fn vaesimcq_u8(data: uint8x16_t) -> uint8x16_t {
    uint8x16_t(mix(data.0, [14, 11, 13, 9]))
}
