"""Running TLC: trace validation (one process per shard) and bounded model checking."""
import os, re, json, concurrent.futures as cf
from .common import *

LIBPATH = os.pathsep.join([SPEC, os.path.join(SPEC, "ciphers"), os.path.join(SPEC, "conf")])


def java_cmd(xmx="3g", tmpdir=None):
    # TLC and SANY leave tlc-*/SANY* directories in java.io.tmpdir: keep them inside the (removed) work directory
    tmp = []
    if tmpdir:
        os.makedirs(tmpdir, exist_ok=True)
        tmp = [f"-Djava.io.tmpdir={tmpdir}"]
    return ["java", "-Xss1g", f"-Xmx{xmx}", "-XX:+UseParallelGC"] + tmp + [
            f"-DTLA-Library={LIBPATH}",
            "-cp", f"{TLA_JAR}:{CM_JAR}", "tlc2.TLC"]


class TraceResult:
    def __init__(self, accepted, states, rejected_at, n, log_tail, wall):
        self.accepted = accepted
        self.states = states
        self.rejected_at = rejected_at   # 1-based index of the first unmatched line
        self.n = n
        self.log_tail = log_tail
        self.wall = wall


def validate_trace(trace_path, module_path, cfg_path, workdir, timeout=900, xmx="3g"):
    """Validate one NDJSON trace with a trace spec.  Returns TraceResult; raises ToolError when TLC did
    not reach a verdict (parse error, evaluation error, timeout, StackOverflow...)."""
    fresh_dir(workdir)
    trace_path = os.path.abspath(trace_path)
    n = sum(1 for l in open(trace_path) if l.strip())
    if n == 0:
        return TraceResult(True, 1, None, 0, "", 0.0)
    cmd = java_cmd(xmx, os.path.join(workdir, "jtmp")) + ["-workers", "1", "-metadir", os.path.join(workdir, "md"), "-noGenerateSpecTE",
                           "-config", cfg_path, module_path]
    t0 = time.time()
    p = run(["timeout", str(timeout)] + cmd, cwd=workdir, env={"TRACE": trace_path}, check=False,
            timeout=timeout + 30)
    wall = time.time() - t0
    out = p.stdout or ""
    shutil.rmtree(os.path.join(workdir, "md"), ignore_errors=True)
    m = re.search(r'"TRACE_REJECTED", (\d+), (\d+)', out)
    sm = re.search(r"(\d+) states generated, (\d+) distinct states found", out)
    states = int(sm.group(2)) if sm else 0
    if m:
        return TraceResult(False, states, int(m.group(1)), n, out[-1500:], wall)
    if "Model checking completed. No error has been found." in out and states == n + 1:
        return TraceResult(True, states, None, n, "", wall)
    raise ToolError(f"TLC gave no verdict on {trace_path} with {os.path.basename(module_path)} "
                    f"(exit {p.returncode}):\n{out[-3000:]}")


def split_runs(events):
    """Split a trace into runs at `reset` events (events before the first reset form run 0)."""
    runs, cur = [], []
    for e in events:
        if e.get("ev") == "reset" and cur:
            runs.append(cur)
            cur = []
        cur.append(e)
    if cur:
        runs.append(cur)
    return runs


def shard_runs(runs, k, cost=len):
    """Greedy balanced partition of runs into at most k shards."""
    k = max(1, min(k, len(runs)))
    shards = [[] for _ in range(k)]
    load = [0] * k
    for r in sorted(runs, key=cost, reverse=True):
        i = load.index(min(load))
        shards[i].append(r)
        load[i] += cost(r)
    return [s for s in shards if s]


def validate_sharded(events, module_path, cfg_path, workroot, tag, shards=8, timeout=900, cost=len, xmx="3g"):
    """Shard by run, validate in parallel.  Returns (all_accepted, total_states, first_failure, results)
    where first_failure = (shard_trace_path, rejected_at, events_of_that_shard)."""
    runs = split_runs(events)
    parts = shard_runs(runs, shards, cost)
    ensure_dir(workroot)
    jobs = []
    for i, part in enumerate(parts):
        evs = [e for r in part for e in r]
        path = os.path.join(workroot, f"{tag}-shard{i}.ndjson")
        write_ndjson(path, evs)
        jobs.append((path, evs, os.path.join(workroot, f"{tag}-w{i}")))
    results = []
    with cf.ThreadPoolExecutor(max_workers=max(1, min(len(jobs), shards))) as ex:
        futs = [ex.submit(validate_trace, path, module_path, cfg_path, wd, timeout, xmx) for path, _, wd in jobs]
        for f, (path, evs, wd) in zip(futs, jobs):
            results.append((f.result(), path, evs))
    ok = all(r.accepted for r, _, _ in results)
    states = sum(r.states for r, _, _ in results)
    fail = None
    for r, path, evs in results:
        if not r.accepted:
            fail = (path, r.rejected_at, evs)
            break
    return ok, states, fail, results


class McResult:
    def __init__(self, ok, states, distinct, transitions, depth, coverage, out, wall):
        self.ok, self.states, self.distinct, self.transitions = ok, states, distinct, transitions
        self.depth, self.coverage, self.out, self.wall = depth, coverage, out, wall


def model_check(module_path, cfg_path, workdir, workers=8, timeout=900, xmx="8g", extra=None, coverage=True):
    """Bounded exhaustive model checking.  ok=False means an invariant/property violation (the
    counterexample is in .out); anything else abnormal raises ToolError."""
    fresh_dir(workdir)
    cmd = java_cmd(xmx, os.path.join(workdir, "jtmp")) + ["-workers", str(workers), "-metadir", os.path.join(workdir, "md"),
                           "-noGenerateSpecTE", "-config", cfg_path]
    if coverage:
        cmd += ["-coverage", "1"]
    cmd += (extra or []) + [module_path]
    t0 = time.time()
    p = run(["timeout", str(timeout)] + cmd, cwd=workdir, check=False, timeout=timeout + 30)
    wall = time.time() - t0
    out = p.stdout or ""
    shutil.rmtree(os.path.join(workdir, "md"), ignore_errors=True)
    sm = re.search(r"(\d+) states generated, (\d+) distinct states found", out)
    dm = re.search(r"depth of the complete state graph search is (\d+)", out)
    cov = {}
    for m in re.finditer(r"<(\w+) line \d+, col \d+ to line \d+, col \d+ of module (\w+)>: (\d+):(\d+)", out):
        cov[m.group(1)] = cov.get(m.group(1), 0) + int(m.group(4))
    if sm is None:
        raise ToolError(f"TLC model checking failed on {os.path.basename(module_path)}:\n{out[-3000:]}")
    gen, distinct = int(sm.group(1)), int(sm.group(2))
    if "No error has been found" in out:
        return McResult(True, gen, distinct, gen, int(dm.group(1)) if dm else 0, cov, out, wall)
    if re.search(r"Invariant \w+ is violated|Temporal properties were violated|Action property .* is violated|is violated", out):
        return McResult(False, gen, distinct, gen, 0, cov, out, wall)
    raise ToolError(f"TLC ended abnormally on {os.path.basename(module_path)}:\n{out[-3000:]}")


def apalache_inductive(module_path, workdir, cinit="ConstInit", timeout=900):
    """Apalache: Init => IndInv (length 0), IndInv /\\ Next => IndInv' (length 1 from IndInit), IndInv => Implied.
    Returns dict(step -> 'ok' | 'error' | 'unavailable')."""
    fresh_dir(workdir)
    # the typed module lives in spec/apalache (it EXTENDS the Apalache module, which SANY/TLC do not know);
    # the modules it extends are taken from spec/
    for d in (SPEC, os.path.dirname(module_path)):
        for f in os.listdir(d):
            if f.endswith(".tla"):
                shutil.copy(os.path.join(d, f), workdir)
    mod = os.path.basename(module_path)
    res = {}
    steps = [("init_implies_inv", ["--init=Init", "--inv=IndInv", "--length=0"]),
             ("inv_is_inductive", ["--init=IndInit", "--inv=IndInv", "--length=1"]),
             ("inv_implies_properties", ["--init=IndInit", "--inv=Implied", "--length=0"])]
    for name, args in steps:
        try:
            p = run(["timeout", str(timeout), "apalache-mc", "check", f"--cinit={cinit}"] + args + [mod], cwd=workdir, check=False, timeout=timeout + 30)
        except (ToolError, FileNotFoundError):
            res[name] = "unavailable"
            continue
        out = p.stdout or ""
        if "The outcome is: NoError" in out:
            res[name] = "ok"
        elif "The outcome is: Error" in out:
            res[name] = "error"
        else:
            res[name] = "unavailable"
    shutil.rmtree(os.path.join(workdir, "_apalache-out"), ignore_errors=True)
    return res


def tlaps_check(module_path, workdir, timeout=600):
    """Best-effort extra: run tlapm on a proof module.  Returns dict(status, obligations)."""
    fresh_dir(workdir)
    shutil.copy(module_path, workdir)
    try:
        p = run(["timeout", str(timeout), "tlapm", "--threads", "8", os.path.basename(module_path)], cwd=workdir, check=False, timeout=timeout + 30)
    except (ToolError, FileNotFoundError):
        return {"status": "unavailable"}
    out = p.stdout or ""
    m = re.search(r"All (\d+) obligations proved", out)
    if m:
        return {"status": "proved", "obligations": int(m.group(1))}
    m = re.search(r"(\d+)/(\d+) obligations failed", out)
    if m:
        return {"status": "failed", "failed": int(m.group(1)), "obligations": int(m.group(2))}
    return {"status": "unavailable"}


def generate_inputs(module, seed, workdir, timeout=600):
    """spec -> impl: let TLC evaluate spec/gen/<module>.tla (a constant-level construction checked by its own ASSUMEs
    against the L2 module) and return the list of cases it prints as <<"GEN", json>>."""
    fresh_dir(workdir)
    src = os.path.join(SPEC, "gen", module + ".tla")
    shutil.copy(src, os.path.join(workdir, module + ".tla"))
    cfg = os.path.join(workdir, module + ".cfg")
    with open(cfg, "w") as f:
        f.write(f"SPECIFICATION Spec\nCONSTANT GenSeed = {int(seed) % 100000}\nCHECK_DEADLOCK FALSE\n")
    cmd = java_cmd("3g", os.path.join(workdir, "jtmp")) + ["-workers", "1", "-metadir", os.path.join(workdir, "md"), "-noGenerateSpecTE",
                                                          "-config", cfg, os.path.join(workdir, module + ".tla")]
    p = run(["timeout", str(timeout)] + cmd, cwd=workdir, check=False, timeout=timeout + 30)
    out = p.stdout or ""
    m = re.search(r'<<"GEN", "(.*?)">>', out, re.S)
    if m is None or "No error has been found" not in out:
        raise ToolError(f"input generation with {module} failed:\n{out[-3000:]}")
    return json.loads(m.group(1).encode().decode("unicode_escape"))

