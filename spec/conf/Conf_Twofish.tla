---------------------------- MODULE Conf_Twofish ----------------------------
EXTENDS Twofish, Json, IOUtils
VARIABLES tpos, inst
Rec == ndJsonDeserialize(IOEnv.TRACE)
OSched(t, k, x) == TwofishSched(t, k, x)
OEnc(ks, b) == TwofishEnc(ks, b)
ODec(ks, b) == TwofishDec(ks, b)
ExtraKinds == {}
INSTANCE ConfBase
=============================================================================
