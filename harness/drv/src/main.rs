#![allow(deprecated, dead_code, unused_imports, clippy::all)]
//! Trace-producing driver for the TLA+ conformance checks.  It drives the real code and records
//! NDJSON events; TLC (not this program) decides whether a trace is allowed by the specification.

mod cat;
mod drivers;
mod ev;
mod rng;
mod types;
mod zero;

use std::collections::HashMap;

pub struct Args {
    pub cmd: String,
    pub kv: HashMap<String, String>,
}
impl Args {
    pub fn get(&self, k: &str) -> Option<&str> {
        self.kv.get(k).map(|s| s.as_str())
    }
    pub fn num(&self, k: &str, d: u64) -> u64 {
        self.get(k).and_then(|s| s.parse().ok()).unwrap_or(d)
    }
    pub fn list(&self, k: &str) -> Vec<String> {
        self.get(k).map(|s| s.split(',').filter(|x| !x.is_empty()).map(|x| x.to_string()).collect()).unwrap_or_default()
    }
}

fn main() {
    let mut it = std::env::args().skip(1);
    let cmd = it.next().unwrap_or_else(|| "help".into());
    let mut kv = HashMap::new();
    while let Some(a) = it.next() {
        if let Some(k) = a.strip_prefix("--") {
            let v = it.next().unwrap_or_default();
            kv.insert(k.to_string(), v);
        }
    }
    let args = Args { cmd, kv };
    // panics of the code under test are data: keep the default hook quiet
    std::panic::set_hook(Box::new(|_| {}));
    let out = ev::Out::new(args.get("out"));
    let rc = drivers::run(&args, &out);
    out.flush();
    std::process::exit(rc);
}
