-------------------------------- MODULE Gift --------------------------------
(***************************************************************************)
(* GIFT-128, written from "GIFT: A Small Present" (Banik, Pandey, Peyrin,  *)
(* Sasaki, Sim, Todo; CHES 2017, eprint 2017/622), section 2: the          *)
(* bit-level description (not the bitsliced / fixsliced one).              *)
(*                                                                         *)
(* The cipher state is b_127 b_126 ... b_0 (b_0 least significant), seen   *)
(* as 32 nibbles w_31 ... w_0 with w_i = b_{4i+3} b_{4i+2} b_{4i+1} b_{4i}.*)
(* Here the state is the tuple of the 32 nibble values, w_i at index i+1,  *)
(* so bit b_j is bit (j mod 4) of the nibble at index (j div 4) + 1.       *)
(* 40 rounds of                                                            *)
(*   SubCells     w_i <- GS(w_i)                                           *)
(*   PermBits     b_{P128(i)} <- b_i                                       *)
(*   AddRoundKey  b_{4i+2} <- b_{4i+2} xor u_i, b_{4i+1} <- b_{4i+1} xor   *)
(*                v_i (i = 0..31) with U = k5 || k4, V = k1 || k0; then    *)
(*                b_127 xor 1 and b_23, b_19, b_15, b_11, b_7, b_3 xor     *)
(*                c5, c4, c3, c2, c1, c0                                   *)
(* The key state k7 || ... || k0 (16-bit words) is updated after the round *)
(* key is extracted: k7||k6||...||k0 <- (k1 >>> 2)||(k0 >>> 12)||k7||..||k2*)
(* The round constant is a 6-bit affine LFSR, initially zero, clocked      *)
(* before use: (c5,..,c0) <- (c4, c3, c2, c1, c0, c5 xor c4 xor 1).        *)
(*                                                                         *)
(* Byte convention of the designers' test vectors: block and key are       *)
(* big-endian strings, first byte = b_127..b_120 resp. the high byte of k7.*)
(*                                                                         *)
(* KATs (spec/kat/Gift.ndjson): the three GIFT-128 vectors published with  *)
(* the designers' reference implementation (giftcipher.github.io),         *)
(* reproduced in /repo/gift/tests/mod.rs.                                  *)
(***************************************************************************)
EXTENDS Naturals, Sequences, Bitwise, TLC, Words, GF256
LOCAL INSTANCE SequencesExt   \* FoldLeft / FoldRight (evaluated by TLC's Java overrides)

\* the S-box GS (Table 1), a function on 0..15
GS == LET t == <<1, 10, 4, 12, 6, 15, 3, 9, 2, 13, 11, 7, 5, 0, 8, 14>>
      IN TLCEval([x \in 0..15 |-> t[x + 1]])
InvGS == InvPerm(GS, 16)

\* the bit permutation of GIFT-128
P128(i) == 4 * (i \div 16) + 32 * ((3 * ((i % 16) \div 4) + (i % 4)) % 4) + (i % 4)
PTab    == TLCEval([i \in 0..127 |-> P128(i)])
InvPTab == InvPerm(PTab, 128)

ASSUME IsPerm(GS, 16) /\ IsPerm(PTab, 128)
\* spot values of Table 2 of the paper
ASSUME PTab[1] = 33 /\ PTab[2] = 66 /\ PTab[3] = 99 /\ PTab[4] = 96 /\ PTab[127] = 31

Rounds == 40

\* ------------------------------------------------------------------- layers
\* bit b_j of a state of nibbles
BitOf(w, j) == (w[(j \div 4) + 1] \div Pow2(j % 4)) % 2

SubCells(w)    == TLCEval([n \in 1..32 |-> GS[w[n]]])
InvSubCells(w) == TLCEval([n \in 1..32 |-> InvGS[w[n]]])

\* new b_j = old b_{src[j]}
Permute(src, w) ==
    TLCEval([n \in 1..32 |-> LET j == 4 * (n - 1) IN
        (BitOf(w, src[j]) + 2 * BitOf(w, src[j + 1]))
        + (4 * BitOf(w, src[j + 2]) + 8 * BitOf(w, src[j + 3]))])
PermBits(w)    == Permute(InvPTab, w)     \* b_{P(i)} <- b_i
InvPermBits(w) == Permute(PTab, w)        \* b_i <- b_{P(i)}

\* a round key is kept as the 32 nibbles that are xored into the state (see RoundKey)
AddRoundKey(w, rk) == TLCEval([n \in 1..32 |-> w[n] ^^ rk[n]])

\* ------------------------------------------------------------- key schedule
\* ks: the key state <<k0, ..., k7>> (k_i at index i+1), 16-bit numbers; c: the round constant.
\* Nibble i receives u_i at bit 2, v_i at bit 1, and at bit 3 the constant bit c_i for i <= 5
\* and 1 for i = 31.
BitN(x, i) == (x \div Pow2(i)) % 2
RoundKey(ks, c) ==
    TLCEval([n \in 1..32 |->
        LET i == n - 1
            u == IF i < 16 THEN BitN(ks[5], i) ELSE BitN(ks[6], i - 16)    \* U = k5 || k4
            v == IF i < 16 THEN BitN(ks[1], i) ELSE BitN(ks[2], i - 16)    \* V = k1 || k0
            k == IF i <= 5 THEN BitN(c, i) ELSE IF i = 31 THEN 1 ELSE 0
        IN 8 * k + 4 * u + 2 * v])

RotR16(x, r) == (x \div Pow2(r)) + ((x % Pow2(r)) * Pow2(16 - r))
\* k7||k6||...||k0 <- (k1 >>> 2)||(k0 >>> 12)||k7||...||k2
UpdateKey(ks) == <<ks[3], ks[4], ks[5], ks[6], ks[7], ks[8], RotR16(ks[1], 12), RotR16(ks[2], 2)>>
\* (c5,...,c0) <- (c4,...,c0, c5 xor c4 xor 1)
UpdateConst(c) == ((2 * c) % 64) + ((BitN(c, 5) + BitN(c, 4) + 1) % 2)

ASSUME LET c1 == UpdateConst(0)   c2 == UpdateConst(c1)  c3 == UpdateConst(c2)
           c4 == UpdateConst(c3)  c5 == UpdateConst(c4)  c6 == UpdateConst(c5)
           c7 == UpdateConst(c6)
       IN <<c1, c2, c3, c4, c5, c6, c7>> = <<1, 3, 7, 15, 31, 62, 61>>    \* 01 03 07 0F 1F 3E 3D

\* accumulator <<key state, constant, round keys so far>>
KeyStep(acc, r) ==
    LET c == UpdateConst(acc[2])
    IN <<UpdateKey(acc[1]), c, Append(acc[3], RoundKey(acc[1], c))>>

\* key bytes = k7 || ... || k0, each word big-endian
KeySchedule(key) ==
    LET k0 == [i \in 1..8 |-> 256 * key[17 - 2 * i] + key[18 - 2 * i]]     \* k_{i-1}
    IN FoldLeft(KeyStep, <<k0, 0, <<>>>>, [r \in 1..Rounds |-> r])[3]

\* ------------------------------------------------------------ bytes <-> state
\* byte 1 = w_31 w_30, ..., byte 16 = w_1 w_0
ToState(bs) == TLCEval([n \in 1..32 |->
    LET i == n - 1   b == bs[16 - (i \div 2)]
    IN IF i % 2 = 0 THEN b % 16 ELSE b \div 16])
FromState(w) == TLCEval([j \in 1..16 |-> 16 * w[34 - 2 * j] + w[33 - 2 * j]])

\* ---------------------------------------------------------------- the cipher
Encrypt(rks, in) ==
    FromState(FoldLeft(LAMBDA w, rk : AddRoundKey(PermBits(SubCells(w)), rk), ToState(in), rks))
Decrypt(rks, in) ==
    FromState(FoldRight(LAMBDA rk, w : InvSubCells(InvPermBits(AddRoundKey(w, rk))), rks, ToState(in)))

\* ------------------------------------------------- conformance interface
GiftSched(type, key, x) == KeySchedule(key)
GiftEnc(ks, in) == Encrypt(ks, in)
GiftDec(ks, in) == Decrypt(ks, in)
=============================================================================
