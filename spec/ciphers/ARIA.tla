-------------------------------- MODULE ARIA --------------------------------
(***************************************************************************)
(* ARIA (RFC 5794 / KS X 1213), byte level, written from the RFC.          *)
(*                                                                         *)
(* A 128-bit value is the tuple of its 16 bytes x0..x15, most significant  *)
(* byte first (RFC 5794 section 2.4: "x0 || x1 || ... || x15"); byte x_j   *)
(* is element j+1 of the tuple.  Only the 128-bit rotations of the key     *)
(* schedule need the value as a number: they go through 16-bit limbs.      *)
(*                                                                         *)
(* S-boxes: SB1 is the AES S-box and is computed (GF(2^8) inverse + affine *)
(* map).  SB2 is pinned as the 16x16 table of RFC 5794 section 2.4.2       *)
(* (numbers copied from /repo/aria/src/consts.rs, the only offline copy)   *)
(* and cross-checked by an ASSUME against the generating rule of the ARIA  *)
(* specification, SB2(x) = B . x^247 + 0xE2.  SB3, SB4 are the computed    *)
(* inverses.  The diffusion layer A is the sixteen XOR equations of        *)
(* section 2.4.3.                                                          *)
(*                                                                         *)
(* Known answers (spec/kat/ARIA.ndjson): ids 1-3 are RFC 5794 Appendix A   *)
(* (A.1 128-bit, A.2 192-bit, A.3 256-bit key); the remaining vectors are  *)
(* random keys/blocks encrypted with OpenSSL 3.5 `openssl enc -aria-N-ecb  *)
(* -nopad`.                                                                *)
(***************************************************************************)
EXTENDS Naturals, Sequences, Bitwise, TLC, Words, GF256

Poly == 283   \* x^8 + x^4 + x^3 + x + 1

\* ---------------------------------------------------------------- S-boxes
GInv == InvTab(Poly)                       \* x |-> x^254 = x^(-1), 0 |-> 0

\* SB1(x) = A . x^(-1) + 0x63, the AES S-box
Affine1(b) == ((b ^^ RotL8(b, 1)) ^^ (RotL8(b, 2) ^^ RotL8(b, 3))) ^^ (RotL8(b, 4) ^^ 99)
SB1 == TLCEval([x \in 0..255 |-> Affine1(GInv[x])])

\* SB2 as printed in RFC 5794 section 2.4.2 (row = high nibble, column = low nibble)
SB2Rows == <<
  <<226,  78,  84, 252, 148, 194,  74, 204,  98,  13, 106,  70,  60,  77, 139, 209>>,
  << 94, 250, 100, 203, 180, 151, 190,  43, 188, 119,  46,   3, 211,  25,  89, 193>>,
  << 29,   6,  65, 107,  85, 240, 153, 105, 234, 156,  24, 174,  99, 223, 231, 187>>,
  <<  0, 115, 102, 251, 150,  76, 133, 228,  58,   9,  69, 170,  15, 238,  16, 235>>,
  << 45, 127, 244,  41, 172, 207, 173, 145, 141, 120, 200, 149, 249,  47, 206, 205>>,
  <<  8, 122, 136,  56,  92, 131,  42,  40,  71, 219, 184, 199, 147, 164,  18,  83>>,
  <<255, 135,  14,  49,  54,  33,  88,  72,   1, 142,  55, 116,  50, 202, 233, 177>>,
  <<183, 171,  12, 215, 196,  86,  66,  38,   7, 152,  96, 217, 182, 185,  17,  64>>,
  <<236,  32, 140, 189, 160, 201, 132,   4,  73,  35, 241,  79,  80,  31,  19, 220>>,
  <<216, 192, 158,  87, 227, 195, 123, 101,  59,   2, 143,  62, 232,  37, 146, 229>>,
  << 21, 221, 253,  23, 169, 191, 212, 154, 126, 197,  57, 103, 254, 118, 157,  67>>,
  <<167, 225, 208, 245, 104, 242,  27,  52, 112,   5, 163, 138, 213, 121, 134, 168>>,
  << 48, 198,  81,  75,  30, 166,  39, 246,  53, 210, 110,  36,  22, 130,  95, 218>>,
  <<230, 117, 162, 239,  44, 178,  28, 159,  93, 111, 128,  10, 114,  68, 155, 108>>,
  <<144,  11,  91,  51, 125,  90,  82, 243,  97, 161, 247, 176, 214,  63, 124, 109>>,
  <<237,  20, 224, 165,  61,  34, 179, 248, 137, 222, 113,  26, 175, 186, 181, 129>> >>
SB2 == TLCEval([x \in 0..255 |-> SB2Rows[(x \div 16) + 1][(x % 16) + 1]])

SB3 == InvPerm(SB1, 256)
SB4 == InvPerm(SB2, 256)

(***************************************************************************)
(* Cross-check of the pinned table: SB2(x) = B . x^247 + 0xE2 with          *)
(*      0 1 0 1 1 1 1 0                                                     *)
(*      0 0 1 1 1 1 0 1          (row r gives output bit r, column c takes  *)
(*      1 1 0 1 0 1 1 1           input bit c, bit 0 = least significant)   *)
(*  B = 1 0 0 1 1 1 0 1                                                     *)
(*      0 0 1 0 1 1 0 0                                                     *)
(*      1 0 0 0 0 0 0 1                                                     *)
(*      0 1 0 1 1 1 0 1                                                     *)
(*      1 1 0 1 0 0 1 1                                                     *)
(* x^247 = x^(-8) = ((x^(-1))^2)^2)^2.  BRows[r] is row r read as a number  *)
(* (column c = bit c).                                                      *)
(***************************************************************************)
BRows == <<122, 188, 235, 185, 52, 129, 186, 203>>
Parity8(v) == LET a == v ^^ (v \div 16)  b == a ^^ (a \div 4)  c == b ^^ (b \div 2) IN c % 2
MatB(y) == LET bit(r) == Parity8(BRows[r + 1] & y) IN
           bit(0) + 2 * bit(1) + 4 * bit(2) + 8 * bit(3)
           + 16 * bit(4) + 32 * bit(5) + 64 * bit(6) + 128 * bit(7)
Sq(a) == GFMul(Poly, a, a)
SB2Rule == TLCEval([x \in 0..255 |-> MatB(Sq(Sq(Sq(GInv[x])))) ^^ 226])
ASSUME SB2 = SB2Rule
ASSUME IsPerm(SB1, 256) /\ IsPerm(SB2, 256)

\* --------------------------------------------- substitution layers (2.4.2)
\* type 1: SB1, SB2, SB3, SB4 repeated; type 2: SB3, SB4, SB1, SB2 repeated
SL1(x) == TLCEval([i \in 1..16 |->
             LET j == (i - 1) % 4 IN
             IF j = 0 THEN SB1[x[i]] ELSE IF j = 1 THEN SB2[x[i]]
             ELSE IF j = 2 THEN SB3[x[i]] ELSE SB4[x[i]]])
SL2(x) == TLCEval([i \in 1..16 |->
             LET j == (i - 1) % 4 IN
             IF j = 0 THEN SB3[x[i]] ELSE IF j = 1 THEN SB4[x[i]]
             ELSE IF j = 2 THEN SB1[x[i]] ELSE SB2[x[i]]])

\* ------------------------------------------------- diffusion layer (2.4.3)
X7(a, b, c, d, e, f, g) == ((a ^^ b) ^^ (c ^^ d)) ^^ ((e ^^ f) ^^ g)
A(x) ==
    LET x0 == x[1]   x1 == x[2]   x2 == x[3]    x3 == x[4]
        x4 == x[5]   x5 == x[6]   x6 == x[7]    x7 == x[8]
        x8 == x[9]   x9 == x[10]  x10 == x[11]  x11 == x[12]
        x12 == x[13] x13 == x[14] x14 == x[15]  x15 == x[16]
    IN TLCEval(<<
        X7(x3, x4, x6, x8,  x9,  x13, x14),    \* y0
        X7(x2, x5, x7, x8,  x9,  x12, x15),    \* y1
        X7(x1, x4, x6, x10, x11, x12, x15),    \* y2
        X7(x0, x5, x7, x10, x11, x13, x14),    \* y3
        X7(x0, x2, x5, x8,  x11, x14, x15),    \* y4
        X7(x1, x3, x4, x9,  x10, x14, x15),    \* y5
        X7(x0, x2, x7, x9,  x10, x12, x13),    \* y6
        X7(x1, x3, x6, x8,  x11, x12, x13),    \* y7
        X7(x0, x1, x4, x7,  x10, x13, x15),    \* y8
        X7(x0, x1, x5, x6,  x11, x12, x14),    \* y9
        X7(x2, x3, x5, x6,  x8,  x13, x15),    \* y10
        X7(x2, x3, x4, x7,  x9,  x12, x14),    \* y11
        X7(x1, x2, x6, x7,  x9,  x11, x12),    \* y12
        X7(x0, x3, x6, x7,  x8,  x10, x13),    \* y13
        X7(x0, x3, x4, x5,  x9,  x11, x14),    \* y14
        X7(x1, x2, x4, x5,  x8,  x10, x15) >>) \* y15

\* ------------------------------------------------- round functions (2.4.1)
FO(d, rk) == A(SL1(XorBytes(d, rk)))
FE(d, rk) == A(SL2(XorBytes(d, rk)))

\* ------------------------------------------------------ key schedule (2.2)
\* 128-bit rotations: bytes (big-endian) -> 16-bit limbs -> rotate -> bytes
Rol128(x, n) == ToBE16(RotLW(65536, BE16(x), n))
Ror128(x, n) == ToBE16(RotRW(65536, BE16(x), n))

C1 == <<81, 124, 193, 183,  39,  34,  10, 148, 254,  19, 171, 232, 250, 154, 110, 224>>
      \* 0x517cc1b727220a94fe13abe8fa9a6ee0
C2 == <<109, 177,  74, 204, 158,  33, 200,  32, 255,  40, 177, 213, 239,  93, 226, 176>>
      \* 0x6db14acc9e21c820ff28b1d5ef5de2b0
C3 == <<219, 146,  55,  29,  33,  38, 233, 112,   3,  36, 151, 117,   4, 232, 201,  14>>
      \* 0xdb92371d2126e9700324977504e8c90e

NRounds(keylen) == IF keylen = 16 THEN 12 ELSE IF keylen = 24 THEN 14 ELSE 16

\* ek1..ek17 of section 2.2.1; only the first NRounds+1 are used
EncKeys(key) ==
    LET n   == Len(key)
        kl  == SubSeqB(key, 1, 16)
        kr  == IF n = 16 THEN Zeros(16)
               ELSE IF n = 24 THEN Concat(SubSeqB(key, 17, 24), Zeros(8))
               ELSE SubSeqB(key, 17, 32)
        ck1 == IF n = 16 THEN C1 ELSE IF n = 24 THEN C2 ELSE C3
        ck2 == IF n = 16 THEN C2 ELSE IF n = 24 THEN C3 ELSE C1
        ck3 == IF n = 16 THEN C3 ELSE IF n = 24 THEN C1 ELSE C2
        w0  == kl
        w1  == XorBytes(FO(w0, ck1), kr)
        w2  == XorBytes(FE(w1, ck2), w0)
        w3  == XorBytes(FO(w2, ck3), w1)
        all == << XorBytes(w0, Ror128(w1, 19)),     \* ek1
                  XorBytes(w1, Ror128(w2, 19)),     \* ek2
                  XorBytes(w2, Ror128(w3, 19)),     \* ek3
                  XorBytes(Ror128(w0, 19), w3),     \* ek4
                  XorBytes(w0, Ror128(w1, 31)),     \* ek5
                  XorBytes(w1, Ror128(w2, 31)),     \* ek6
                  XorBytes(w2, Ror128(w3, 31)),     \* ek7
                  XorBytes(Ror128(w0, 31), w3),     \* ek8
                  XorBytes(w0, Rol128(w1, 61)),     \* ek9
                  XorBytes(w1, Rol128(w2, 61)),     \* ek10
                  XorBytes(w2, Rol128(w3, 61)),     \* ek11
                  XorBytes(Rol128(w0, 61), w3),     \* ek12
                  XorBytes(w0, Rol128(w1, 31)),     \* ek13
                  XorBytes(w1, Rol128(w2, 31)),     \* ek14
                  XorBytes(w2, Rol128(w3, 31)),     \* ek15
                  XorBytes(Rol128(w0, 31), w3),     \* ek16
                  XorBytes(w0, Rol128(w1, 19)) >>   \* ek17
    IN TLCEval(SubSeq(all, 1, NRounds(n) + 1))

\* dk1 = ek(n+1), dk(i) = A(ek(n+2-i)) for i = 2..n, dk(n+1) = ek1   (2.2.2)
DecKeys(ek) ==
    LET n == Len(ek) - 1 IN
    TLCEval([i \in 1..(n + 1) |->
        IF i = 1 THEN ek[n + 1] ELSE IF i = n + 1 THEN ek[1] ELSE A(ek[n + 2 - i])])

\* ------------------------------------------------------- the cipher (2.3)
\* rounds 1..n-1 alternate FO (odd) / FE (even); the last round is
\* SL2(P(n-1) ^ k(n)) ^ k(n+1).  Decryption is the same with dk.
RECURSIVE Rounds(_, _, _, _)
Rounds(rk, n, i, s) ==
    IF i = n THEN XorBytes(SL2(XorBytes(s, rk[n])), rk[n + 1])
    ELSE Rounds(rk, n, i + 1, IF i % 2 = 1 THEN FO(s, rk[i]) ELSE FE(s, rk[i]))
Crypt(rk, in) == Rounds(rk, Len(rk) - 1, 1, in)

\* ------------------------------------------------- conformance interface
ARIAKeyLen(type) ==
    IF type = "Aria128" THEN 16 ELSE IF type = "Aria192" THEN 24 ELSE 32
ARIASched(type, key, extra) ==
    LET ek == EncKeys(key) IN TLCEval([ek |-> ek, dk |-> DecKeys(ek)])
ARIAEnc(ks, in) == Crypt(ks.ek, in)
ARIADec(ks, in) == Crypt(ks.dk, in)
=============================================================================
