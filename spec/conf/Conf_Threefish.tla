------------------------------ MODULE Conf_Threefish ------------------------------
EXTENDS Threefish, Json, IOUtils
VARIABLES tpos, inst
Rec == ndJsonDeserialize(IOEnv.TRACE)
OSched(t, k, x) == ThreefishSched(t, k, x)
OEnc(ks, b) == ThreefishEnc(ks, b)
ODec(ks, b) == ThreefishDec(ks, b)
ExtraKinds == {}
INSTANCE ConfBase
=============================================================================
