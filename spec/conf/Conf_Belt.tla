------------------------------ MODULE Conf_Belt ------------------------------
(***************************************************************************)
(* Conformance trace specification for the BelT family: the generic        *)
(* new/enc/dec/blocks checks of ConfBase for type "BeltBlock", plus        *)
(*   raw    - the free function belt_block_raw must be belt-block          *)
(*            encryption (STB 34.101.31 6.1.3);                            *)
(*   wblock - belt_wblock_enc / belt_wblock_dec (property C18): for        *)
(*            len >= 32 the call succeeds and the buffer holds the         *)
(*            standard's belt-wbl transformation (6.2.3 / 6.2.4) of the    *)
(*            input, for len < 32 it reports invalid_length and leaves the *)
(*            buffer untouched; no guard byte around the buffer changes;   *)
(*            a panic is never accepted.                                   *)
(***************************************************************************)
EXTENDS Belt, Json, IOUtils
VARIABLES tpos, inst
Rec == ndJsonDeserialize(IOEnv.TRACE)
OSched(t, k, x) == BeltSched(t, k, x)
OEnc(ks, b) == BeltEnc(ks, b)
ODec(ks, b) == BeltDec(ks, b)
ExtraKinds == {"wblock", "raw"}
INSTANCE ConfBase

WBlock ==
    /\ IsEvent("wblock")
    /\ LET e == Rec[tpos] IN
       /\ e.dir \in {"enc", "dec"}
       /\ Len(e.key) = 32
       /\ e.len = Len(e.in)
       /\ IF e.len < 32
          THEN e.outcome = "invalid_length" /\ e.out = e.in
          ELSE /\ e.outcome = "ok"
               /\ e.out = IF e.dir = "enc" THEN BeltWBlockEnc(e.key, e.in)
                                           ELSE BeltWBlockDec(e.key, e.in)
       /\ e.guard_bad = 0
    /\ UNCHANGED inst

Raw ==
    /\ IsEvent("raw")
    /\ LET e == Rec[tpos] IN
       /\ e.outcome = "ok"
       /\ e.out = BeltEnc(BeltSched("BeltBlock", e.key, <<>>), e.x)
    /\ UNCHANGED inst

XNext == Next \/ WBlock \/ Raw
XSpec == Init /\ [][XNext]_vars
=============================================================================
