SPECIFICATION XSpec
POSTCONDITION TraceAccepted
CHECK_DEADLOCK FALSE
