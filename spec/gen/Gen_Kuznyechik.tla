--------------------------- MODULE Gen_Kuznyechik ---------------------------
(***************************************************************************)
(* Specification-generated keys that steer the round keys (spec -> impl).  *)
(* The key schedule of GOST R 34.12-2015 is a Feistel network, hence       *)
(* invertible: choose a pair of round keys (K_{2m-1}, K_{2m}) with a       *)
(* relation that uniform keys never have - equal, sharing one aligned      *)
(* 32-bit word, one of them zero or all ones - and run the specification's *)
(* own F backwards to the 256-bit key that produces it.  The keys are      *)
(* printed as JSON and fed to the real types by the driver;                *)
(* Conf_Kuznyechik judges the results as for any other key.                *)
(***************************************************************************)
EXTENDS Kuznyechik, TLC, Json
CONSTANT GenSeed

\* F(k, <<p1, p2>>) = <<LSX(k, p1) xor p2, p1>>, so F^-1(k, <<q1, q2>>) = <<q2, q1 xor LSX(k, q2)>>
FInv(k, q) == TLCEval(<<q[2], XorBytes(q[1], LSX(k, q[2]))>>)
RECURSIVE FChainInv(_, _, _)
FChainInv(q, lo, hi) == IF hi < lo THEN q ELSE FChainInv(FInv(C[hi], q), lo, hi - 1)
\* the key whose m-th round-key pair (m = 1..5) is `pair`
KeyFor(m, pair) == LET p == FChainInv(pair, 1, 8 * (m - 1)) IN p[1] \o p[2]

Mix(n) == ((n * 7919 + 104729) % 65521) % 256
Blk(n) == [j \in 1..16 |-> Mix((GenSeed % 100000) * 131 + n * 1009 + j * j * 31 + j * 7)]
ShareWord(a, b, w) == [j \in 1..16 |-> IF (j - 1) \div 4 = w THEN a[j] ELSE b[j]]     \* b with aligned word w taken from a

Relations == <<"equal", "word0", "word1", "word2", "word3", "zero-first", "zero-second", "ones-first", "complement">>
PairFor(rel, n) ==
    LET a == Blk(2 * n)  b == Blk(2 * n + 1) IN
    CASE rel = "equal"       -> <<a, a>>
      [] rel = "word0"       -> <<a, ShareWord(a, b, 0)>>
      [] rel = "word1"       -> <<a, ShareWord(a, b, 1)>>
      [] rel = "word2"       -> <<a, ShareWord(a, b, 2)>>
      [] rel = "word3"       -> <<a, ShareWord(a, b, 3)>>
      [] rel = "zero-first"  -> <<[j \in 1..16 |-> 0], b>>
      [] rel = "zero-second" -> <<a, [j \in 1..16 |-> 0]>>
      [] rel = "ones-first"  -> <<[j \in 1..16 |-> 255], b>>
      [] OTHER               -> <<a, [j \in 1..16 |-> 255 - a[j]]>>

\* every relation on the middle pair (K5, K6) - the only mirrored pair K(i+1), K(10-i) inside one Feistel pair -
\* and a rotating choice of the other pairs
Cases ==
    [n \in 1..(2 * Len(Relations)) |->
        LET rel == Relations[((n - 1) % Len(Relations)) + 1]
            m == IF n <= Len(Relations) THEN 3 ELSE 2 + ((n + GenSeed) % 4)
            pair == PairFor(rel, n)
        IN [key |-> KeyFor(m, pair), pair |-> m, rel |-> rel, want |-> pair]]

ASSUME FInvIsInverse == \A n \in 1..6 : FInv(C[n], F(C[n], <<Blk(n), Blk(n + 7)>>)) = <<Blk(n), Blk(n + 7)>>
ASSUME CasesHitTheTarget == \A n \in 1..Len(Cases) :
    LET c == Cases[n]  rk == RoundKeys(c.key) IN <<rk[2 * c.pair - 1], rk[2 * c.pair]>> = c.want
ASSUME PrintT(<<"GEN", ToJson(Cases)>>)

VARIABLE gstep
Init == gstep = 0
Next == UNCHANGED gstep
Spec == Init /\ [][Next]_gstep
=============================================================================
