SPECIFICATION Spec
INVARIANTS RoundKeyCount WeakInvolution SemiWeakPairs AllDifferent NeighbourNotWeak
CHECK_DEADLOCK FALSE
