"""Shadow configurations: code that cannot be selected natively on x86-64 (32-bit fixslice AES, the ARMv8 AES
backend, the NEON Kuznyechik backend) is compiled from the CURRENT /repo sources as a generated crate copy with
mechanical, line-local substitutions of cfg predicates, `core::arch::aarch64` being redirected to the software
intrinsic model harness/neon_model.  A substitution pattern that no longer matches means the source was
refactored: the configuration is then reported as not buildable (ToolError), never as a violation."""
import os, re, shutil, fcntl
from .common import *
from . import build

SHADOW_ROOT = os.path.join(HARNESS if os.path.realpath(REPO) == "/repo" else os.path.join(OUT, "harness"), "target", "shadow")

A64_SUBS = [
    (r'target_arch\s*=\s*"aarch64"', 'all()'),
    (r'target_arch\s*=\s*"x86_64"', 'any()'),
    (r'target_arch\s*=\s*"x86"', 'any()'),
    (r'target_feature\s*=\s*"neon"', 'all()'),
    (r'target_feature\s*=\s*"sse2"', 'any()'),
    (r'use core::\{arch::aarch64::\*, mem, slice\};', 'use core::{mem, slice}; use verif_neon_model::*;'),
    (r'use core::\{arch::aarch64::\*, mem\};', 'use core::mem; use verif_neon_model::*;'),
    (r'core::arch::aarch64', 'verif_neon_model'),
]

SHADOWS = {
    # id: (crate dir in /repo, substitutions [(regex, repl, min_count)], files that must contain a match, rustflags, needs neon model)
    "aes-fix32": dict(crate="aes", subs=[(r'target_pointer_width\s*=\s*"64"', 'any()')], must={"src/soft.rs": 2},
                      rustflags=["--cfg", "aes_force_soft"], neon=False),
    "aes-fix32-compact": dict(crate="aes", subs=[(r'target_pointer_width\s*=\s*"64"', 'any()')], must={"src/soft.rs": 2},
                              rustflags=["--cfg", "aes_force_soft", "--cfg", "aes_compact"], neon=False),
    "aes-armv8": dict(crate="aes", subs=A64_SUBS, must={"src/lib.rs": 2, "src/autodetect.rs": 2, "src/armv8/encdec.rs": 1,
                                                        "src/armv8/expand.rs": 1, "src/armv8/hazmat.rs": 1, "src/hazmat.rs": 2},
                      rustflags=["--cfg", "block_ciphers_verif"], neon=True),
    "kuz-neon": dict(crate="kuznyechik", subs=A64_SUBS, must={"src/lib.rs": 3, "src/neon/backends.rs": 1},
                     rustflags=[], neon=True),
}
# zeroize variants (C16): same sources, `zeroize` feature on
for _sid in ("aes-fix32", "aes-armv8", "kuz-neon"):
    _d = dict(SHADOWS[_sid])
    _d["features"] = ["zeroize", "hazmat", "bcrypt"]
    SHADOWS[_sid + "-z"] = _d
FEATURES = ["hazmat", "bcrypt"]
_built = {}


def _generate(sid):
    s = SHADOWS[sid]
    root = os.path.join(SHADOW_ROOT, sid)
    final_ws = os.path.join(root, "ws")
    ws = os.path.join(root, "ws.new")
    shutil.rmtree(ws, ignore_errors=True)
    os.makedirs(ws)
    crate = s["crate"]
    src = os.path.join(REPO, crate)
    dst = os.path.join(ws, crate)
    shutil.copytree(src, dst, ignore=shutil.ignore_patterns("target", "tests", "benches"))
    counts = {}
    for dp, _, fns in os.walk(dst):
        for fn in fns:
            if not fn.endswith(".rs"):
                continue
            p = os.path.join(dp, fn)
            txt = open(p).read()
            n_total = 0
            for pat, rep in [(x[0], x[1]) for x in s["subs"]]:
                txt, n = re.subn(pat, rep, txt)
                n_total += n
            rel = os.path.relpath(p, dst)
            counts[rel] = n_total
            open(p, "w").write(txt)
    for rel, need in s["must"].items():
        if counts.get(rel, 0) < need:
            raise ToolError(f"shadow configuration {sid}: substitution patterns no longer match {crate}/{rel} "
                            f"({counts.get(rel, 0)} < {need}); configuration not built")
    # crate manifest: drop dev-dependencies/lints that refer to the workspace, add the intrinsic model
    ct = open(os.path.join(dst, "Cargo.toml")).read()
    ct = re.sub(r'\[target\..*?\]\s*\n(?:.*\n)*?(?=\[|\Z)', lambda m: m.group(0), ct)
    if s["neon"]:
        ct = ct.replace("[dependencies]\n", f'[dependencies]\nverif_neon_model = {{ path = "{os.path.join(HARNESS, "neon_model")}" }}\n', 1)
        # cpufeatures is a target-specific dependency for aarch64/x86: on this host the x86_64 arm applies already
    open(os.path.join(dst, "Cargo.toml"), "w").write(ct)
    # the driver, unchanged, with the path of the shadowed crate redirected
    shutil.copytree(os.path.join(HARNESS, "drv"), os.path.join(ws, "drv"))
    dt = open(os.path.join(ws, "drv", "Cargo.toml")).read()
    dt, n = re.subn(r'path = "/repo/%s"' % re.escape(crate), f'path = "../{crate}"', dt)
    dt = dt.replace('path = "/repo/', 'path = "%s/' % os.path.realpath(REPO))
    if n != 1:
        raise ToolError(f"shadow {sid}: cannot redirect the driver's dependency on {crate}")
    open(os.path.join(ws, "drv", "Cargo.toml"), "w").write(dt)
    open(os.path.join(ws, "Cargo.toml"), "w").write('[workspace]\nresolver = "3"\nmembers = ["drv"]\n\n[profile.dev]\nopt-level = 2\ndebug = false\n')
    os.makedirs(os.path.join(ws, ".cargo"))
    open(os.path.join(ws, ".cargo", "config.toml"), "w").write("[net]\noffline = true\n")
    shutil.copy(os.path.join(HARNESS, "Cargo.lock"), os.path.join(ws, "Cargo.lock"))
    # content-based sync so that unchanged files keep their mtime (cargo then rebuilds only what changed)
    ensure_dir(final_ws)
    run(["rsync", "-rc", "--delete", "--exclude", "Cargo.lock", ws + "/", final_ws + "/"], timeout=120)
    if not os.path.exists(os.path.join(final_ws, "Cargo.lock")):
        shutil.copy(os.path.join(ws, "Cargo.lock"), os.path.join(final_ws, "Cargo.lock"))
    shutil.rmtree(ws, ignore_errors=True)
    return final_ws


def build_shadow(sid):
    if sid in _built:
        return _built[sid]
    s = SHADOWS[sid]
    root = ensure_dir(os.path.join(SHADOW_ROOT, sid))
    lock = open(os.path.join(root, ".verif-lock"), "w")
    fcntl.flock(lock, fcntl.LOCK_EX)
    try:
        ws = _generate(sid)
        tdir = os.path.join(root, "target")
        flags = list(s["rustflags"]) + ["--check-cfg", "cfg(block_ciphers_verif)", "-Awarnings"]
        env = {"CARGO_ENCODED_RUSTFLAGS": "\x1f".join(flags), "CARGO_NET_OFFLINE": "true"}
        p = run(["cargo", "build", "--offline", "-q", "-p", "drv", "--target-dir", tdir, "--features", ",".join(s.get("features", FEATURES))],
                cwd=ws, env=env, timeout=1800, check=False)
    finally:
        fcntl.flock(lock, fcntl.LOCK_UN)
        lock.close()
    if p.returncode != 0:
        raise ToolError(f"shadow configuration {sid} failed to build:\n{(p.stdout or '')[-4000:]}")
    exe = os.path.join(tdir, "debug", "drv")
    _built[sid] = exe
    build._built[sid] = exe          # drive() finds it under the same id
    build.CONFIGS.setdefault(sid, dict(rustflags=s["rustflags"], features=FEATURES, shadow=True))
    return exe
