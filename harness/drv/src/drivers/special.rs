//! Drivers for the free-function sub-machines: AES hazmat rounds (C17), eksblowfish (C14),
//! BelT wide-block and raw block (C18, C07).

use super::*;
use crate::rng::mix;

// ------------------------------------------------------------------------------------------ hazmat
#[cfg(feature = "hazmat")]
pub fn hazmat(cx: &mut Ctx, args: &Args, rng: &mut Rng) -> i32 {
    use aes::hazmat::*;
    use cipher::Array;
    let n = args.num("n", 20) as usize;
    cx.reset("hazmat");
    let blocks = mix(rng, 16, n);
    let keys = mix(rng, 16, n);
    for (i, (_, b)) in blocks.iter().enumerate() {
        let (_, k) = &keys[(i * 7 + 3) % keys.len()];
        for f in ["round", "inv_round", "mix", "inv_mix"] {
            let r = catch(|| {
                let mut blk = Array::<u8, cipher::consts::U16>::clone_from_slice(b);
                let key = Array::<u8, cipher::consts::U16>::clone_from_slice(k);
                match f {
                    "round" => cipher_round(&mut blk, &key),
                    "inv_round" => equiv_inv_cipher_round(&mut blk, &key),
                    "mix" => mix_columns(&mut blk),
                    _ => inv_mix_columns(&mut blk),
                }
                blk.to_vec()
            });
            let v = match r {
                Ok(o) => json!({"ev":"haz","fn":f,"blocks":[b],"keys":[k],"out":[o],"outcome":"ok"}),
                Err(m) => json!({"ev":"haz","fn":f,"blocks":[b],"keys":[k],"out":[],"outcome":"panic","msg":m}),
            };
            cx.emit(v);
        }
    }
    // parallel forms: 8 independent blocks and 8 independent keys
    let npar = (n / 2).max(100);
    for t in 0..npar {
        let bl: Vec<Vec<u8>> = if t == 0 {
            // all distinct in every byte position
            (0..8).map(|j| (0..16).map(|i| (j * 16 + i + 1) as u8).collect()).collect()
        } else {
            (0..8).map(|_| if rng.below(4) == 0 { mix(rng, 16, 1)[0].1.clone() } else { rng.bytes(16) }).collect()
        };
        let mut kl: Vec<Vec<u8>> = if t == 0 {
            (0..8).map(|j| (0..16).map(|i| (255 - (j * 16 + i)) as u8).collect()).collect()
        } else {
            (0..8).map(|_| rng.bytes(16)).collect()
        };
        let mut bl = bl;
        // relations between lanes (equal keys / equal blocks in some lanes): every other call
        if t % 2 == 1 {
            let (_, kp) = crate::rng::lane_pattern_k(rng, 8, t / 2);
            let src = kl.clone();
            for j in 0..8 {
                kl[j] = src[kp[j]].clone();
            }
            {
                // block relations cycle independently of the key relations (all 49 pairs within 98 calls)
                let (_, bp) = crate::rng::lane_pattern_k(rng, 8, t / 2 + (t / 2) / 7);
                let src = bl.clone();
                for j in 0..8 {
                    bl[j] = src[bp[j]].clone();
                }
                // near-equal lanes: the same bit of a byte flipped in a few lanes (mostly the top or the bottom bit)
                if rng.below(2) == 0 {
                    let bit = [7usize, 7, 0, rng.below(8)][rng.below(4)];
                    for _ in 0..1 + rng.below(4) {
                        let (lane, byte) = (rng.below(8), rng.below(16));
                        bl[lane][byte] ^= 1 << bit;
                    }
                }
            }
        }
        for f in ["round_par", "inv_round_par"] {
            let r = catch(|| {
                let mut b8 = Block8::default();
                let mut k8 = Block8::default();
                for j in 0..8 {
                    b8[j].copy_from_slice(&bl[j]);
                    k8[j].copy_from_slice(&kl[j]);
                }
                if f == "round_par" {
                    cipher_round_par(&mut b8, &k8)
                } else {
                    equiv_inv_cipher_round_par(&mut b8, &k8)
                }
                b8.iter().map(|b| b.to_vec()).collect::<Vec<_>>()
            });
            let v = match r {
                Ok(o) => json!({"ev":"haz","fn":f,"blocks":bl,"keys":kl,"out":o,"outcome":"ok"}),
                Err(m) => json!({"ev":"haz","fn":f,"blocks":bl,"keys":kl,"out":[],"outcome":"panic","msg":m}),
            };
            cx.emit(v);
        }
    }
    cx.end();
    0
}
#[cfg(not(feature = "hazmat"))]
pub fn hazmat(_cx: &mut Ctx, _args: &Args, _rng: &mut Rng) -> i32 {
    eprintln!("built without the hazmat feature");
    2
}

/// the detection hook (only in `--cfg block_ciphers_verif` builds)
#[cfg(block_ciphers_verif)]
pub fn set_force_off(off: bool) {
    aes::verif::force_intrinsics_off(off);
}
#[cfg(not(block_ciphers_verif))]
pub fn set_force_off(_off: bool) {}
pub fn hook_present() -> bool {
    cfg!(block_ciphers_verif)
}

// ------------------------------------------------------------------------------------------ bcrypt
#[cfg(feature = "bcrypt")]
pub fn bcrypt(cx: &mut Ctx, args: &Args, rng: &mut Rng) -> i32 {
    use blowfish::Blowfish;
    let nscen = args.num("n", 4) as usize;
    let steps = args.num("steps", 4) as usize;
    let cost = args.num("cost", 0) as u32;
    let scen_file = args.get("scenarios");
    // a scenario is a list of steps; each step: ("expand", keyidx) | ("salted", saltidx, keyidx) | ("encrypt")
    let mut scenarios: Vec<Vec<(String, usize, usize)>> = Vec::new();
    if let Some(p) = scen_file {
        let txt = std::fs::read_to_string(p).expect("scenario file");
        for line in txt.lines().filter(|l| !l.trim().is_empty()) {
            let v: Value = serde_json::from_str(line).expect("scenario json");
            let mut s = Vec::new();
            for st in v.as_array().unwrap() {
                let a = st.as_array().unwrap();
                s.push((
                    a[0].as_str().unwrap().to_string(),
                    a.get(1).and_then(|x| x.as_u64()).unwrap_or(0) as usize,
                    a.get(2).and_then(|x| x.as_u64()).unwrap_or(0) as usize,
                ));
            }
            scenarios.push(s);
        }
    } else {
        for _ in 0..nscen {
            let mut s = Vec::new();
            for _ in 0..steps {
                match rng.below(5) {
                    0 | 1 => s.push(("expand".to_string(), rng.below(2), 0)),
                    2 | 3 => s.push(("salted".to_string(), rng.below(2), rng.below(2))),
                    _ => s.push(("encrypt".to_string(), 0, 0)),
                }
            }
            scenarios.push(s);
        }
    }
    let be = |lr: [u32; 2]| -> Vec<u8> { [lr[0].to_be_bytes(), lr[1].to_be_bytes()].concat() };
    for scen in scenarios {
        cx.reset("bcrypt");
        // concretise: two keys and two salts of assorted lengths (1..72, incl. non multiples of 4)
        let lens = [1usize, 2, 3, 4, 5, 7, 8, 16, 17, 31, 55, 56, 57, 71, 72, 73, 100, 255];
        // value classes: random, all-zero, zero prefix / suffix (both are consumed cyclically, 4 bytes at a time), word-sparse
        let class = |rng: &mut Rng, l: usize| -> Vec<u8> {
            match rng.below(10) {
                0 | 1 => vec![0u8; l],
                2 | 3 | 4 => crate::rng::zero_affix(rng, l).1,
                5 => crate::rng::wordmask(rng, l).1,
                _ => rng.bytes(l),
            }
        };
        let keys: Vec<Vec<u8>> = (0..2).map(|_| { let l = lens[rng.below(lens.len())]; class(rng, l) }).collect();
        let salts: Vec<Vec<u8>> = (0..2).map(|i| { let l = if i == 0 { 16 } else { lens[rng.below(lens.len())] }; if rng.below(2) == 0 { rng.bytes(l) } else { class(rng, l) } }).collect();
        let id = cx.fresh_id();
        let mut st = match catch(Blowfish::bc_init_state) {
            Ok(s) => { cx.emit(json!({"ev":"bc","fn":"init","id":id,"outcome":"ok"})); s }
            Err(_) => { cx.emit(json!({"ev":"bc","fn":"init","id":id,"outcome":"panic"})); continue }
        };
        let probe = |cx: &mut Ctx, st: &Blowfish, rng: &mut Rng| {
            let fixed: [[u32; 2]; 2] = [[0, 0], [0xFFFF_FFFF, 0x0123_4567]];
            for j in 0..3 {
                let lr = if j < 2 { fixed[j] } else { [rng.next() as u32, rng.next() as u32] };
                let r = catch(|| st.bc_encrypt(lr));
                let v = match r {
                    Ok(o) => json!({"ev":"bc","fn":"encrypt","id":id,"in":be(lr),"out":be(o),"outcome":"ok"}),
                    Err(_) => json!({"ev":"bc","fn":"encrypt","id":id,"in":be(lr),"out":[],"outcome":"panic"}),
                };
                cx.emit(v);
            }
        };
        for (op, a, b) in &scen {
            match op.as_str() {
                "expand" => {
                    let k = keys[*a % 2].clone();
                    let r = catch(std::panic::AssertUnwindSafe(|| st.bc_expand_key(&k)));
                    cx.emit(json!({"ev":"bc","fn":"expand","id":id,"key":k,"salt":[],"outcome": if r.is_ok() {"ok"} else {"panic"}}));
                    probe(cx, &st, rng);
                }
                "salted" => {
                    let s = salts[*a % 2].clone();
                    let k = keys[*b % 2].clone();
                    let r = catch(std::panic::AssertUnwindSafe(|| st.salted_expand_key(&s, &k)));
                    cx.emit(json!({"ev":"bc","fn":"salted","id":id,"key":k,"salt":s,"outcome": if r.is_ok() {"ok"} else {"panic"}}));
                    probe(cx, &st, rng);
                }
                _ => probe(cx, &st, rng),
            }
        }
        // the bcrypt cost loop: salted(salt,key); 2^cost x { expand(key); expand(salt) }
        if cost > 0 {
            let k = keys[0].clone();
            let s = salts[0].clone();
            st.salted_expand_key(&s, &k);
            cx.emit(json!({"ev":"bc","fn":"salted","id":id,"key":k,"salt":s,"outcome":"ok"}));
            for _ in 0..(1u32 << cost) {
                st.bc_expand_key(&k);
                cx.emit(json!({"ev":"bc","fn":"expand","id":id,"key":k,"salt":[],"outcome":"ok"}));
                st.bc_expand_key(&s);
                cx.emit(json!({"ev":"bc","fn":"expand","id":id,"key":s,"salt":[],"outcome":"ok"}));
            }
            probe(cx, &st, rng);
        }
        // the state is an ordinary Blowfish<BE>: the block-cipher API must see the same permutation
        let w = W(st);
        for _ in 0..2 {
            let b = rng.bytes(8);
            if let Some(c) = cx.one(id, &w, Dir::Enc, Shape::B2b, &b) {
                cx.one(id, &w, Dir::Dec, Shape::Inplace, &c);
            }
        }
        cx.emit(json!({"ev":"drop","id":id,"out":"ok"}));
        cx.end();
    }
    // plain expansion == ordinary keying: init; expand(k) next to Blowfish::new_from_slice(k)
    if scen_file.is_none() {
        for _ in 0..nscen.min(3) {
            cx.reset("bcrypt-vs-keying");
            let l = 4 + rng.below(53);
            let k = rng.bytes(l);
            let id = cx.fresh_id();
            let mut st = Blowfish::bc_init_state();
            cx.emit(json!({"ev":"bc","fn":"init","id":id,"outcome":"ok"}));
            st.bc_expand_key(&k);
            cx.emit(json!({"ev":"bc","fn":"expand","id":id,"key":k,"salt":[],"outcome":"ok"}));
            let ti = cx.ty("Blowfish").unwrap();
            if let Some((nid, inst)) = cx.construct(ti, "slice", &k, "random") {
                let w = W(st);
                for _ in 0..3 {
                    let b = rng.bytes(8);
                    cx.one(id, &w, Dir::Enc, Shape::B2b, &b);
                    cx.one(nid, inst.as_ref(), Dir::Enc, Shape::B2b, &b);
                }
                cx.drop_inst(nid, inst);
            }
            cx.emit(json!({"ev":"drop","id":id,"out":"ok"}));
            cx.end();
        }
    }
    0
}
#[cfg(not(feature = "bcrypt"))]
pub fn bcrypt(_cx: &mut Ctx, _args: &Args, _rng: &mut Rng) -> i32 {
    eprintln!("built without the bcrypt feature");
    2
}

// ------------------------------------------------------------------------------------------ wblock
fn key_words(k: &[u8]) -> [u32; 8] {
    let mut w = [0u32; 8];
    for (i, c) in k.chunks_exact(4).enumerate() {
        w[i] = u32::from_le_bytes(c.try_into().unwrap());
    }
    w
}

pub fn wblock(cx: &mut Ctx, args: &Args, rng: &mut Rng) -> i32 {
    use belt_block::{belt_block_raw, belt_wblock_dec, belt_wblock_enc};
    let maxlen = args.num("maxlen", 100) as usize;
    let extra = args.num("extra", 4) as usize;
    let nkeys = args.num("keys", 2) as usize;
    let lo = args.num("minlen", 0) as usize;
    let big = args.num("big", 0) as usize;
    let mut do_len = |cx: &mut Ctx, rng: &mut Rng, key: &[u8], len: usize, data: Vec<u8>| {
        let kw = key_words(key);
        for dir in ["enc", "dec"] {
            let mut buf = Guarded::new(rng.below(8), &data);
            let r = catch(std::panic::AssertUnwindSafe(|| {
                if dir == "enc" { belt_wblock_enc(buf.payload_mut(), &kw) } else { belt_wblock_dec(buf.payload_mut(), &kw) }
            }));
            let outcome = match &r { Ok(Ok(())) => "ok", Ok(Err(_)) => "invalid_length", Err(_) => "panic" };
            let out = buf.payload().to_vec();
            cx.emit(json!({"ev":"wblock","dir":dir,"key":key,"len":len,"in":data,"out":out,"guard_bad":buf.guard_bad(),"outcome":outcome}));
            // the other direction applied to the result (both compositions)
            if outcome == "ok" {
                let mut b2 = out.clone();
                let r2 = catch(std::panic::AssertUnwindSafe(|| {
                    if dir == "enc" { belt_wblock_dec(&mut b2, &kw) } else { belt_wblock_enc(&mut b2, &kw) }
                }));
                let oc2 = match &r2 { Ok(Ok(())) => "ok", Ok(Err(_)) => "invalid_length", Err(_) => "panic" };
                cx.emit(json!({"ev":"wblock","dir": if dir == "enc" {"dec"} else {"enc"},"key":key,"len":len,"in":out,"out":b2,"guard_bad":0,"outcome":oc2}));
            }
        }
    };
    for (kc, key) in mix(rng, 32, nkeys) {
        cx.reset("wblock");
        let _ = kc;
        for len in lo..=maxlen {
            let data = match rng.below(4) {
                0 => mix(rng, len, 1)[0].1.clone(),
                _ => rng.bytes(len),
            };
            do_len(cx, rng, &key, len, data);
        }
        for _ in 0..extra {
            let len = maxlen + 1 + rng.below(1024usize.saturating_sub(maxlen).max(1));
            let data = rng.bytes(len);
            do_len(cx, rng, &key, len, data);
        }
        // lengths at which the round counter (2 * ceil(len/16) rounds) no longer fits one byte
        for j in 0..big {
            let len = match j % 3 {
                0 => 2033 + rng.below(16),
                1 => 2017 + rng.below(16),
                _ => 2049 + rng.below(2048),
            };
            let data = rng.bytes(len);
            do_len(cx, rng, &key, len, data);
        }
        // raw block function and the BeltBlock type on the same key
        let kw = key_words(&key);
        let ti = cx.ty("BeltBlock").unwrap();
        let inst = cx.construct(ti, "slice", &key, "wblock-key");
        for (_, b) in mix(rng, 16, 4) {
            let x: [u32; 4] = core::array::from_fn(|i| u32::from_le_bytes(b[4 * i..4 * i + 4].try_into().unwrap()));
            let r = catch(|| belt_block_raw(x, &kw));
            let v = match r {
                Ok(o) => json!({"ev":"raw","x":b,"key":key,"out":o.iter().flat_map(|w| w.to_le_bytes()).collect::<Vec<u8>>(),"outcome":"ok"}),
                Err(_) => json!({"ev":"raw","x":b,"key":key,"out":[],"outcome":"panic"}),
            };
            cx.emit(v);
            if let Some((id, i)) = &inst {
                cx.one(*id, i.as_ref(), Dir::Enc, Shape::B2b, &b);
            }
        }
        if let Some((id, i)) = inst {
            cx.drop_inst(id, i);
        }
        cx.end();
    }
    0
}
