//! `batch` (C04): multi-block / buffer-to-buffer calls against per-block observations.

use super::*;
use std::collections::HashSet;

fn pattern(kind: usize, j: usize, bs: usize, salt: &[u8]) -> Vec<u8> {
    match kind {
        // all blocks distinct in every byte position
        0 => (0..bs).map(|i| (j as u8).wrapping_mul(37).wrapping_add((i as u8).wrapping_mul(11)).wrapping_add(salt[i % salt.len()])).collect(),
        // all equal
        1 => salt.iter().cycle().take(bs).copied().collect(),
        // pairwise differing in exactly one byte, never byte 0
        2 => {
            let mut b: Vec<u8> = salt.iter().cycle().take(bs).copied().collect();
            let pos = 1 + (j % (bs - 1).max(1));
            if bs > 1 {
                b[pos] ^= 1 + (j / (bs - 1).max(1)) as u8;
            }
            b
        }
        _ => unreachable!(),
    }
}

pub fn run(cx: &mut Ctx, args: &Args, rng: &mut Rng) -> i32 {
    let mult = args.num("mult", 3) as usize; // n ranges over 0..=mult*par+2
    let offsets_all = args.get("offsets") == Some("all");
    let nrandom = args.num("random", 2) as usize;
    for ti in cx.select(args) {
        let (name, bs, ksz) = (cx.types[ti].name, cx.types[ti].bs, cx.types[ti].key_size);
        let mut r = rng.fork(name);
        let key = r.bytes(*key_lens(&cx.types[ti], false).last().unwrap_or(&ksz));
        cx.reset(name);
        let Some((id, inst)) = cx.construct(ti, "slice", &key, "random") else { cx.end(); continue };
        let salt = r.bytes(bs);
        let mut seen: HashSet<(bool, Vec<u8>)> = HashSet::new();
        for dir in [Dir::Enc, Dir::Dec] {
            let par = match dir {
                Dir::Enc => inst.par_e(),
                Dir::Dec => inst.par_d(),
            };
            let Some(par) = par else { continue };
            let maxn = mult * par + 2;
            let mut observe = |cx: &mut Ctx, data: &[u8], seen: &mut HashSet<(bool, Vec<u8>)>| {
                for b in data.chunks(bs) {
                    if seen.insert((dir == Dir::Enc, b.to_vec())) {
                        cx.one(id, inst.as_ref(), dir, Shape::B2b, b);
                    }
                }
            };
            for n in 0..=maxn {
                for (si, shape) in Shape::ALL.iter().enumerate() {
                    let kind = (n + si) % 3;
                    let data: Vec<u8> = (0..n).flat_map(|j| pattern(kind, j, bs, &salt)).collect();
                    observe(cx, &data, &mut seen);
                    cx.many(id, inst.as_ref(), dir, *shape, &data, r.below(16), r.below(16), None);
                }
            }
            // random contents, a few larger sizes
            for _ in 0..nrandom {
                let n = maxn + 1 + r.below(2 * par + 3);
                let data = r.bytes(n * bs);
                observe(cx, &data, &mut seen);
                cx.many(id, inst.as_ref(), dir, Shape::ALL[r.below(3)], &data, r.below(16), r.below(16), None);
            }
            // relations between the lanes of a parallel chunk (rng::lane_pattern): lanes equal as whole blocks, or only in
            // their first or second half (the other half random) - every pattern, for backends that process lanes together
            if par > 1 {
                for k in 0..7 {
                    let (_, pat) = crate::rng::lane_pattern_k(&mut r, par, k);
                    let mode = (k + salt[0] as usize) % 3;
                    let vals: Vec<Vec<u8>> = (0..par.max(3)).map(|_| r.bytes(bs)).collect();
                    let n = 2 * par + r.below(par);
                    let data: Vec<u8> = (0..n)
                        .flat_map(|j| {
                            let mut b = vals[pat[j % par]].clone();
                            let fresh = r.bytes(bs);
                            match mode {
                                1 => b[bs / 2..].copy_from_slice(&fresh[bs / 2..]),
                                2 => b[..bs / 2].copy_from_slice(&fresh[..bs / 2]),
                                _ => {}
                            }
                            b
                        })
                        .collect();
                    observe(cx, &data, &mut seen);
                    cx.many(id, inst.as_ref(), dir, Shape::ALL[r.below(3)], &data, r.below(16), r.below(16), None);
                }
            }
            // long batches (block counters wider than a byte / a 16-bit word): few distinct values, period coprime to the widths
            for &n in &[257 + r.below(64), args.num("huge", 0) as usize] {
                if n == 0 {
                    continue;
                }
                let vals: Vec<Vec<u8>> = (0..5).map(|_| r.bytes(bs)).collect();
                let data: Vec<u8> = (0..n).flat_map(|j| vals[j % 5].clone()).collect();
                observe(cx, &data, &mut seen);
                cx.many(id, inst.as_ref(), dir, Shape::ALL[r.below(3)], &data, r.below(16), r.below(16), None);
            }
            // every (input offset, output offset) pair
            if offsets_all {
                let n = par + 1;
                let data: Vec<u8> = (0..n).flat_map(|j| pattern(0, j, bs, &salt)).collect();
                observe(cx, &data, &mut seen);
                for oi in 0..16 {
                    for oo in 0..16 {
                        cx.many(id, inst.as_ref(), dir, if (oi + oo) % 2 == 0 { Shape::B2b } else { Shape::Inout }, &data, oi, oo, None);
                    }
                }
                for oo in 0..16 {
                    cx.many(id, inst.as_ref(), dir, Shape::Inplace, &data, 0, oo, None);
                }
            }
            // mismatched lengths: must report the error and write nothing
            for (n, on) in [(par + 1, par), (2, 3), (0, 1), (1, 0)] {
                let data: Vec<u8> = (0..n).flat_map(|j| pattern(0, j, bs, &salt)).collect();
                observe(cx, &data, &mut seen);
                cx.many(id, inst.as_ref(), dir, Shape::B2b, &data, r.below(16), r.below(16), Some(on));
                cx.many(id, inst.as_ref(), dir, Shape::Inout, &data, r.below(16), r.below(16), Some(on));
            }
            // direct backend calls: one par step + tail
            // (every entry point of the backend trait: out-of-place and in-place forms of par/tail/single)
            for n in [0, 1, par.saturating_sub(1), par, par + 1, 2 * par - 1] {
                let data: Vec<u8> = (0..n).flat_map(|j| pattern(2, j, bs, &salt)).collect();
                observe(cx, &data, &mut seen);
                for mode in 0..4 {
                    if mode >= 2 && n > par + 1 {
                        continue;
                    }
                    crate::cat::DIRECT_MODE.store(mode, std::sync::atomic::Ordering::Relaxed);
                    cx.direct(id, inst.as_ref(), dir, &data);
                }
                crate::cat::DIRECT_MODE.store(0, std::sync::atomic::Ordering::Relaxed);
            }
        }
        cx.drop_inst(id, inst);
        cx.end();
    }
    0
}
