------------------------------- MODULE Speck -------------------------------
(***************************************************************************)
(* SPECK, written from "The SIMON and SPECK Families of Lightweight Block  *)
(* Ciphers" (Beaulieu, Shors, Smith, Treatman-Clark, Weeks, Wingers; 2013),*)
(* section 4.                                                              *)
(*                                                                         *)
(* Speck2n/mn: word size n in {16,24,32,48,64}, m key words, T rounds,     *)
(* rotation amounts (alpha, beta) = (7, 2) if n = 16 and (8, 3) otherwise. *)
(*   round      R_k(x, y) = ((S^-alpha x + y) xor k,                       *)
(*                           S^beta y xor (S^-alpha x + y) xor k)          *)
(*   schedule   l_{i+m-1} = (k_i + S^-alpha l_i) xor i                     *)
(*              k_{i+1}   = S^beta k_i xor l_{i+m-1}          i = 0..T-2   *)
(* An n-bit word is a tuple of limbs, least significant first: 16-bit      *)
(* limbs for n = 16/32/48/64 and 8-bit limbs for n = 24.                   *)
(*                                                                         *)
(* Byte convention = the way the paper prints its test vectors (App. C):   *)
(* block = x || y, key = l_{m-2} || ... || l_0 || k_0, every word          *)
(* big-endian.                                                             *)
(*                                                                         *)
(* KATs (spec/kat/Speck.ndjson): the ten vectors of Appendix C of the      *)
(* paper, one per parameter set (reproduced in /repo/speck/tests/mod.rs).  *)
(***************************************************************************)
EXTENDS Naturals, Sequences, Bitwise, TLC, Words
LOCAL INSTANCE SequencesExt   \* FoldLeft / FoldRight (evaluated by TLC's Java overrides)

\* parameters of Table 4.1: word size n, key words m, rounds T
SpeckParams(type) ==
    CASE type = "Speck32_64"   -> [n |-> 16, m |-> 4, T |-> 22]
      [] type = "Speck48_72"   -> [n |-> 24, m |-> 3, T |-> 22]
      [] type = "Speck48_96"   -> [n |-> 24, m |-> 4, T |-> 23]
      [] type = "Speck64_96"   -> [n |-> 32, m |-> 3, T |-> 26]
      [] type = "Speck64_128"  -> [n |-> 32, m |-> 4, T |-> 27]
      [] type = "Speck96_96"   -> [n |-> 48, m |-> 2, T |-> 28]
      [] type = "Speck96_144"  -> [n |-> 48, m |-> 3, T |-> 29]
      [] type = "Speck128_128" -> [n |-> 64, m |-> 2, T |-> 32]
      [] type = "Speck128_192" -> [n |-> 64, m |-> 3, T |-> 33]
      [] type = "Speck128_256" -> [n |-> 64, m |-> 4, T |-> 34]

Alpha(n) == IF n = 16 THEN 7 ELSE 8
Beta(n)  == IF n = 16 THEN 2 ELSE 3
\* limb modulus, limb width and number of limbs of an n-bit word
LimbMod(n) == IF n = 24 THEN 256 ELSE 65536
LimbW(n)   == IF n = 24 THEN 8 ELSE 16
Limbs(n)   == n \div LimbW(n)

\* big-endian bytes <-> word
WordOf(n, bs)  == IF n = 24 THEN Rev(bs) ELSE BE16(bs)
BytesOf(n, w)  == IF n = 24 THEN Rev(w) ELSE ToBE16(w)

\* Rotation of a word of L limbs of B bits by s bits, 0 < s <= B (alpha and beta are at most 8):
\* the same function as Words!RotRW / RotLW (checked below), without the general-amount
\* bookkeeping, because the two rotations are most of the cost of a round.
\* ps = 2^s, pc = 2^(B-s)
RotR(w, ps, pc) == LET L == Len(w) IN
    TLCEval([i \in 1..L |-> (w[i] \div ps) + ((w[(i % L) + 1] % ps) * pc)])
RotL(w, ps, pc) == LET L == Len(w) IN
    TLCEval([i \in 1..L |-> ((w[i] % pc) * ps) + (w[((i + L - 2) % L) + 1] \div pc)])

ASSUME \A n \in {16, 24, 32, 48, 64} : \A s \in {Alpha(n), Beta(n)} :
    LET M == LimbMod(n)
        w == [i \in 1..Limbs(n) |-> (40503 * i + 4660) % M]
    IN /\ RotR(w, Pow2(s), Pow2(LimbW(n) - s)) = RotRW(M, w, s)
       /\ RotL(w, Pow2(s), Pow2(LimbW(n) - s)) = RotLW(M, w, s)

\* the constants of one parameter set that the round function needs
RoundConsts(n) ==
    [M |-> LimbMod(n),
     pa |-> Pow2(Alpha(n)), pca |-> Pow2(LimbW(n) - Alpha(n)),
     pb |-> Pow2(Beta(n)),  pcb |-> Pow2(LimbW(n) - Beta(n))]

\* ------------------------------------------------------------ round function
\* state is <<x, y>>
Round(c, k, st) ==
    LET nx == XorW(AddW(c.M, RotR(st[1], c.pa, c.pca), st[2]), k)
        ny == XorW(RotL(st[2], c.pb, c.pcb), nx)
    IN <<nx, ny>>
InvRound(c, k, st) ==
    LET y  == RotR(XorW(st[1], st[2]), c.pb, c.pcb)
        x  == RotL(SubW(c.M, XorW(st[1], k), y), c.pa, c.pca)
    IN <<x, y>>

\* -------------------------------------------------------------- key schedule
\* st = <<ls, ks>> with ls[j+1] = l_j, ks[j+1] = k_j; step i computes l_{i+m-1} and k_{i+1}
ExpandStep(c, nl, st, i) ==
    LET l == XorW(AddW(c.M, st[2][i + 1], RotR(st[1][i + 1], c.pa, c.pca)), NatW(c.M, i, nl))
        k == XorW(RotL(st[2][i + 1], c.pb, c.pcb), l)
    IN <<Append(st[1], l), Append(st[2], k)>>

\* key bytes = l_{m-2} || ... || l_0 || k_0; the result is <<k_0, ..., k_{T-1}>>
KeySchedule(p, key) ==
    LET n  == p.n
        c  == RoundConsts(n)
        nl == Limbs(n)
        ws == Chunks(key, n \div 8)                             \* ws[j], j = 1..m
        l0 == [j \in 1..(p.m - 1) |-> WordOf(n, ws[p.m - j])]   \* l0[j+1] = l_j
        k0 == WordOf(n, ws[p.m])
    IN FoldLeft(LAMBDA st, i : ExpandStep(c, nl, st, i), <<l0, <<k0>>>>,
                [j \in 1..(p.T - 1) |-> j - 1])[2]

\* ---------------------------------------------------------------- the cipher
\* (iteration by FoldLeft/FoldRight rather than by a recursive operator: TLC evaluates a
\* recursive operator in a context that grows with the recursion depth, and every lookup of a
\* standard-module operator such as + walks that context)
Encrypt(c, rk, st) == FoldLeft(LAMBDA s, k : Round(c, k, s), st, rk)
Decrypt(c, rk, st) == FoldRight(LAMBDA k, s : InvRound(c, k, s), rk, st)

Split(n, in) == LET wb == n \div 8 IN
    <<WordOf(n, SubSeqB(in, 1, wb)), WordOf(n, SubSeqB(in, wb + 1, 2 * wb))>>
Join(n, st) == BytesOf(n, st[1]) \o BytesOf(n, st[2])

\* ------------------------------------------------- conformance interface
SpeckSched(type, key, x) ==
    LET p == SpeckParams(type)
    IN [n |-> p.n, c |-> TLCEval(RoundConsts(p.n)), rk |-> TLCEval(KeySchedule(p, key))]
SpeckEnc(ks, in) == Join(ks.n, Encrypt(ks.c, ks.rk, Split(ks.n, in)))
SpeckDec(ks, in) == Join(ks.n, Decrypt(ks.c, ks.rk, Split(ks.n, in)))
=============================================================================
