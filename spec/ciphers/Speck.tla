------------------------------- MODULE Speck -------------------------------
(***************************************************************************)
(* SPECK, written from "The SIMON and SPECK Families of Lightweight Block  *)
(* Ciphers" (Beaulieu, Shors, Smith, Treatman-Clark, Weeks, Wingers; 2013),*)
(* section 4.                                                              *)
(*                                                                         *)
(* Speck2n/mn: word size n in {16,24,32,48,64}, m key words, T rounds,     *)
(* rotation amounts (alpha, beta) = (7, 2) if n = 16 and (8, 3) otherwise. *)
(*   round      R_k(x, y) = ((S^-alpha x + y) xor k,                       *)
(*                           S^beta y xor (S^-alpha x + y) xor k)          *)
(*   schedule   l_{i+m-1} = (k_i + S^-alpha l_i) xor i                     *)
(*              k_{i+1}   = S^beta k_i xor l_{i+m-1}          i = 0..T-2   *)
(* An n-bit word is a tuple of limbs, least significant first: 16-bit      *)
(* limbs for n = 16/32/48/64 and 8-bit limbs for n = 24.                   *)
(*                                                                         *)
(* Byte convention = the way the paper prints its test vectors (App. C):   *)
(* block = x || y, key = l_{m-2} || ... || l_0 || k_0, every word          *)
(* big-endian.                                                             *)
(*                                                                         *)
(* KATs (spec/kat/Speck.ndjson): the ten vectors of Appendix C of the      *)
(* paper, one per parameter set (reproduced in /repo/speck/tests/mod.rs).  *)
(***************************************************************************)
EXTENDS Naturals, Sequences, Bitwise, TLC, Words

\* parameters of Table 4.1: word size n, key words m, rounds T
SpeckParams(type) ==
    CASE type = "Speck32_64"   -> [n |-> 16, m |-> 4, T |-> 22]
      [] type = "Speck48_72"   -> [n |-> 24, m |-> 3, T |-> 22]
      [] type = "Speck48_96"   -> [n |-> 24, m |-> 4, T |-> 23]
      [] type = "Speck64_96"   -> [n |-> 32, m |-> 3, T |-> 26]
      [] type = "Speck64_128"  -> [n |-> 32, m |-> 4, T |-> 27]
      [] type = "Speck96_96"   -> [n |-> 48, m |-> 2, T |-> 28]
      [] type = "Speck96_144"  -> [n |-> 48, m |-> 3, T |-> 29]
      [] type = "Speck128_128" -> [n |-> 64, m |-> 2, T |-> 32]
      [] type = "Speck128_192" -> [n |-> 64, m |-> 3, T |-> 33]
      [] type = "Speck128_256" -> [n |-> 64, m |-> 4, T |-> 34]

Alpha(n) == IF n = 16 THEN 7 ELSE 8
Beta(n)  == IF n = 16 THEN 2 ELSE 3
\* limb modulus and number of limbs of an n-bit word
LimbMod(n) == IF n = 24 THEN 256 ELSE 65536
Limbs(n)   == IF n = 24 THEN 3 ELSE n \div 16

\* big-endian bytes <-> word
WordOf(n, bs)  == IF n = 24 THEN Rev(bs) ELSE BE16(bs)
BytesOf(n, w)  == IF n = 24 THEN Rev(w) ELSE ToBE16(w)

\* ------------------------------------------------------------ round function
\* state is <<x, y>>
Round(n, k, st) ==
    LET M  == LimbMod(n)
        nx == XorW(AddW(M, RotRW(M, st[1], Alpha(n)), st[2]), k)
        ny == XorW(RotLW(M, st[2], Beta(n)), nx)
    IN <<nx, ny>>
InvRound(n, k, st) ==
    LET M  == LimbMod(n)
        y  == RotRW(M, XorW(st[1], st[2]), Beta(n))
        x  == RotLW(M, SubW(M, XorW(st[1], k), y), Alpha(n))
    IN <<x, y>>

\* -------------------------------------------------------------- key schedule
\* ls[j+1] = l_j, ks[j+1] = k_j; step i computes l_{i+m-1} and k_{i+1}
RECURSIVE Expand(_, _, _, _, _, _)
Expand(n, m, T, ls, ks, i) ==
    IF i > T - 2 THEN ks
    ELSE LET M  == LimbMod(n)
             nl == XorW(AddW(M, ks[i + 1], RotRW(M, ls[i + 1], Alpha(n))), NatW(M, i, Limbs(n)))
             nk == XorW(RotLW(M, ks[i + 1], Beta(n)), nl)
         IN Expand(n, m, T, Append(ls, nl), Append(ks, nk), i + 1)

\* key bytes = l_{m-2} || ... || l_0 || k_0
KeySchedule(p, key) ==
    LET n  == p.n
        wb == n \div 8
        ws == Chunks(key, wb)                                   \* ws[j], j = 1..m
        l0 == [j \in 1..(p.m - 1) |-> WordOf(n, ws[p.m - j])]   \* l0[j+1] = l_j
        k0 == WordOf(n, ws[p.m])
    IN Expand(n, p.m, p.T, l0, <<k0>>, 0)

\* ---------------------------------------------------------------- the cipher
RECURSIVE EncFrom(_, _, _, _)
EncFrom(n, rk, i, st) == IF i > Len(rk) THEN st ELSE EncFrom(n, rk, i + 1, Round(n, rk[i], st))
RECURSIVE DecFrom(_, _, _, _)
DecFrom(n, rk, i, st) == IF i < 1 THEN st ELSE DecFrom(n, rk, i - 1, InvRound(n, rk[i], st))

Split(n, in) == LET wb == n \div 8 IN
    <<WordOf(n, SubSeqB(in, 1, wb)), WordOf(n, SubSeqB(in, wb + 1, 2 * wb))>>
Join(n, st) == BytesOf(n, st[1]) \o BytesOf(n, st[2])

\* ------------------------------------------------- conformance interface
SpeckSched(type, key, x) ==
    LET p == SpeckParams(type) IN [n |-> p.n, rk |-> TLCEval(KeySchedule(p, key))]
SpeckEnc(ks, in) == Join(ks.n, EncFrom(ks.n, ks.rk, 1, Split(ks.n, in)))
SpeckDec(ks, in) == Join(ks.n, DecFrom(ks.n, ks.rk, Len(ks.rk), Split(ks.n, in)))
=============================================================================
