------------------------------ MODULE Conf_Gift ------------------------------
EXTENDS Gift, Json, IOUtils
VARIABLES tpos, inst
Rec == ndJsonDeserialize(IOEnv.TRACE)
OSched(t, k, x) == GiftSched(t, k, x)
OEnc(ks, b) == GiftEnc(ks, b)
ODec(ks, b) == GiftDec(ks, b)
ExtraKinds == {}
INSTANCE ConfBase
=============================================================================
