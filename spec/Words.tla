------------------------------- MODULE Words -------------------------------
(***************************************************************************)
(* Machine words for the bit-precise cipher specifications (layer L2).     *)
(*                                                                         *)
(* TLC integers are 32-bit signed and overflow is an error, so a w-bit     *)
(* word is a tuple of limbs, least significant limb first.  The limb       *)
(* modulus m (65536 for 16-bit limbs, 256 for 8-bit limbs) is passed       *)
(* explicitly where it matters, so the same operators serve 8/16/24/32/48/ *)
(* 64/128-bit words.  Byte strings are tuples of 0..255, 1-based.          *)
(*                                                                         *)
(* Every operator is a total function on its intended domain and returns   *)
(* a strict (TLCEval-ed) value so that chained round functions are not     *)
(* re-evaluated lazily.                                                    *)
(***************************************************************************)
EXTENDS Naturals, Sequences, Bitwise, TLC

Pow2Tab == TLCEval([i \in 0..30 |-> 2^i])
Pow2(i) == Pow2Tab[i]

\* ----------------------------------------------------------------- bytes
Byte == 0..255
XorB(a, b) == a ^^ b
XorBytes(a, b) == TLCEval([i \in 1..Len(a) |-> a[i] ^^ b[i]])
RotL8(x, r) == LET s == r % 8 IN ((x * Pow2(s)) % 256) + (x \div Pow2(8 - s))
SubSeqB(s, a, b) == TLCEval([i \in 1..(b - a + 1) |-> s[a + i - 1]])
Rev(s) == TLCEval([i \in 1..Len(s) |-> s[Len(s) + 1 - i]])
Zeros(n) == TLCEval([i \in 1..n |-> 0])
Concat(a, b) == TLCEval(a \o b)

\* ------------------------------------------------------- limb tuple words
\* number of limbs
NL(a) == Len(a)

XorW(a, b) == TLCEval([i \in 1..Len(a) |-> a[i] ^^ b[i]])
AndW(a, b) == TLCEval([i \in 1..Len(a) |-> a[i] & b[i]])
OrW(a, b)  == TLCEval([i \in 1..Len(a) |-> a[i] | b[i]])
NotW(m, a) == TLCEval([i \in 1..Len(a) |-> (m - 1) - a[i]])
ZeroW(n)   == TLCEval([i \in 1..n |-> 0])

RECURSIVE AddCarry(_, _, _, _, _)
AddCarry(m, a, b, i, c) ==
    IF i > Len(a) THEN <<>>
    ELSE LET s == a[i] + b[i] + c IN <<s % m>> \o AddCarry(m, a, b, i + 1, s \div m)
\* a + b mod 2^w
AddW(m, a, b) == TLCEval(AddCarry(m, a, b, 1, 0))

RECURSIVE SubBorrow(_, _, _, _, _)
SubBorrow(m, a, b, i, c) ==
    IF i > Len(a) THEN <<>>
    ELSE LET d == a[i] - b[i] - c IN
         IF d < 0 THEN <<d + m>> \o SubBorrow(m, a, b, i + 1, 1)
                  ELSE <<d>> \o SubBorrow(m, a, b, i + 1, 0)
\* a - b mod 2^w
SubW(m, a, b) == TLCEval(SubBorrow(m, a, b, 1, 0))

\* limb width in bits for modulus m
LimbBits(m) == IF m = 65536 THEN 16 ELSE IF m = 256 THEN 8 ELSE IF m = 16 THEN 4 ELSE 1

\* rotate left by r bits (any r >= 0) a word of n limbs of B bits
RotLW(m, a, r) ==
    LET B == LimbBits(m)
        n == Len(a)
        rr == r % (n * B)
        q == rr \div B
        s == rr % B
        idx(j) == ((j - 1 + 2 * n) % n) + 1          \* 1-based wrap
    IN TLCEval([i \in 1..n |->
         LET hi == a[idx(i - q)]
             lo == a[idx(i - q - 1)]
         IN IF s = 0 THEN hi
            ELSE ((hi * Pow2(s)) % m) + (lo \div Pow2(B - s))])
RotRW(m, a, r) == LET tot == Len(a) * LimbBits(m) IN RotLW(m, a, (tot - (r % tot)) % tot)

\* logical shifts by r bits, 0 <= r
ShLW(m, a, r) ==
    LET B == LimbBits(m)
        n == Len(a)
        q == r \div B
        s == r % B
        g(j) == IF j >= 1 /\ j <= n THEN a[j] ELSE 0
    IN TLCEval([i \in 1..n |->
         IF s = 0 THEN g(i - q)
         ELSE ((g(i - q) * Pow2(s)) % m) + (g(i - q - 1) \div Pow2(B - s))])
ShRW(m, a, r) ==
    LET B == LimbBits(m)
        n == Len(a)
        q == r \div B
        s == r % B
        g(j) == IF j >= 1 /\ j <= n THEN a[j] ELSE 0
    IN TLCEval([i \in 1..n |->
         IF s = 0 THEN g(i + q)
         ELSE (g(i + q) \div Pow2(s)) + ((g(i + q + 1) * Pow2(B - s)) % m)])

\* low k bits of a word as a natural number (k <= 30), used for rotation amounts
LowBits(m, a, k) ==
    LET B == LimbBits(m) IN
    IF k <= B THEN a[1] % Pow2(k)
    ELSE a[1] + m * (a[2] % Pow2(k - B))

\* ------------------------------------------------ bytes <-> 16-bit limbs
\* little-endian bytes -> 16-bit limbs (Len(bs) even)
LE16(bs) == TLCEval([i \in 1..(Len(bs) \div 2) |-> bs[2*i - 1] + 256 * bs[2*i]])
\* big-endian bytes -> 16-bit limbs (least significant limb first)
BE16(bs) == LET n == Len(bs) \div 2 IN
            TLCEval([i \in 1..n |-> bs[Len(bs) - 2*i + 2] + 256 * bs[Len(bs) - 2*i + 1]])
\* 16-bit limbs -> bytes
ToLE16(w) == TLCEval([i \in 1..(2 * Len(w)) |->
                 IF i % 2 = 1 THEN w[(i + 1) \div 2] % 256 ELSE w[i \div 2] \div 256])
ToBE16(w) == Rev(ToLE16(w))
\* 8-bit limbs: a word of 8-bit limbs is just its little-endian byte string
LE8(bs) == bs
BE8(bs) == Rev(bs)

\* small constants as words: value v < 2^31 as n limbs of modulus m
RECURSIVE NatLimbs(_, _, _)
NatLimbs(m, v, n) == IF n = 0 THEN <<>> ELSE <<v % m>> \o NatLimbs(m, v \div m, n - 1)
NatW(m, v, n) == TLCEval(NatLimbs(m, v, n))
\* a 32-bit constant given as (hi16, lo16)
W32(hi, lo) == <<lo, hi>>

\* split a byte string into chunks of k bytes
Chunks(bs, k) == TLCEval([i \in 1..(Len(bs) \div k) |-> SubSeqB(bs, (i - 1) * k + 1, i * k)])
RECURSIVE FlattenFrom(_, _)
FlattenFrom(ss, i) == IF i > Len(ss) THEN <<>> ELSE ss[i] \o FlattenFrom(ss, i + 1)
Flatten(ss) == TLCEval(FlattenFrom(ss, 1))

\* ------------------------------------------------------------ bit vectors
\* byte string -> bits, most significant bit of byte 1 first (FIPS 46 numbering)
BitsMSB(bs) == TLCEval([i \in 1..(8 * Len(bs)) |->
                  (bs[((i - 1) \div 8) + 1] \div Pow2(7 - ((i - 1) % 8))) % 2])
FromBitsMSB(bits) == TLCEval([i \in 1..(Len(bits) \div 8) |->
      LET o == 8 * (i - 1) IN
      128*bits[o+1] + 64*bits[o+2] + 32*bits[o+3] + 16*bits[o+4]
      + 8*bits[o+5] + 4*bits[o+6] + 2*bits[o+7] + bits[o+8]])
XorBits(a, b) == TLCEval([i \in 1..Len(a) |-> (a[i] + b[i]) % 2])
=============================================================================
