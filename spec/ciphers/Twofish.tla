------------------------------ MODULE Twofish ------------------------------
(***************************************************************************)
(* Twofish (Schneier, Kelsey, Whiting, Wagner, Hall, Ferguson: "Twofish: A *)
(* 128-Bit Block Cipher", 15 June 1998), written from the paper.           *)
(*                                                                         *)
(*  - section 4.3.5: the fixed 8-bit permutations q0, q1 are COMPUTED from *)
(*    their four 4-bit tables t0..t3 (the only pinned numbers besides the  *)
(*    MDS and RS matrices) by the a/b ROR4 construction;                   *)
(*  - section 4.2: MDS matrix over GF(2^8)/x^8+x^6+x^5+x^3+1 (0x169);      *)
(*  - section 4.3: key schedule: Me, Mo, the S vector via the RS matrix    *)
(*    over GF(2^8)/x^8+x^6+x^3+x^2+1 (0x14D), the function h for k=2,3,4,  *)
(*    expanded key words K_2i = A+B, K_2i+1 = ROL(A+2B, 9), rho = 2^24 +   *)
(*    2^16 + 2^8 + 1;                                                      *)
(*  - section 4.1: input whitening, 16 rounds of F (g, PHT, round keys,    *)
(*    1-bit rotations), undo of the last swap, output whitening.           *)
(*                                                                         *)
(* All words are 32-bit little-endian (section 4: "little-endian           *)
(* convention"), held as two 16-bit limbs <<lo, hi>> (Words.tla).          *)
(*                                                                         *)
(* Known answers (spec/kat/Twofish.ndjson), all from the paper / the AES   *)
(* submission package (ecb_ival.txt, "Intermediate value" tests and the    *)
(* iterated ECB table of appendix "Test Vectors"):                         *)
(*   128/192/256-bit key intermediate-value vectors (PT = 0), and the      *)
(*   iterated test KEY_i = PT_{i-1} || KEY_{i-1}, PT_i = CT_{i-1}, I = 1..5*)
(*   and I = 48 for each key size (also used by /repo/twofish/tests).      *)
(*   The keys/plaintexts of the I = 48 events are the chain values of that *)
(*   table (reproduced by an independent reference run; the published      *)
(*   CT_48 closes the chain).  The paper's intermediate values (the 40     *)
(*   expanded key words and the S-box key S for the three PT = 0 vectors)  *)
(*   were checked once against KeySchedule(key).K / .S: all equal.         *)
(***************************************************************************)
EXTENDS Naturals, Sequences, Bitwise, TLC, Words, GF256

MdsPoly == 361   \* 0x169
RsPoly  == 333   \* 0x14D

\* ---------------------------------------------- q0, q1 (section 4.3.5)
\* 4-bit tables t0, t1, t2, t3 (index 0..15 stored at 1..16)
Q0T == << <<8, 1, 7, 13, 6, 15, 3, 2, 0, 11, 5, 9, 14, 12, 10, 4>>,
          <<14, 12, 11, 8, 1, 2, 3, 5, 15, 4, 10, 6, 7, 0, 9, 13>>,
          <<11, 10, 5, 14, 6, 13, 9, 0, 12, 8, 15, 3, 2, 4, 7, 1>>,
          <<13, 7, 15, 4, 1, 2, 6, 14, 9, 11, 3, 0, 8, 5, 12, 10>> >>
Q1T == << <<2, 8, 11, 13, 15, 7, 6, 14, 3, 1, 9, 4, 0, 10, 12, 5>>,
          <<1, 14, 2, 11, 4, 12, 3, 7, 6, 13, 10, 5, 15, 9, 0, 8>>,
          <<4, 12, 7, 5, 1, 6, 9, 10, 0, 14, 13, 8, 2, 11, 3, 15>>,
          <<11, 9, 5, 1, 12, 3, 13, 14, 6, 4, 7, 15, 2, 0, 8, 10>> >>

Ror4(x) == (x \div 2) + 8 * (x % 2)          \* ROR4(x, 1)
QPerm(t, x) ==
    LET a0 == x \div 16
        b0 == x % 16
        a1 == a0 ^^ b0
        b1 == (a0 ^^ Ror4(b0)) ^^ ((8 * a0) % 16)
        a2 == t[1][a1 + 1]
        b2 == t[2][b1 + 1]
        a3 == a2 ^^ b2
        b3 == (a2 ^^ Ror4(b2)) ^^ ((8 * a2) % 16)
        a4 == t[3][a3 + 1]
        b4 == t[4][b3 + 1]
    IN 16 * b4 + a4
Q0 == TLCEval([x \in 0..255 |-> QPerm(Q0T, x)])
Q1 == TLCEval([x \in 0..255 |-> QPerm(Q1T, x)])

\* ---------------------------------------------------- MDS (section 4.2)
MDS == << <<1, 239, 91, 91>>,       \* 01 EF 5B 5B
          <<91, 239, 239, 1>>,      \* 5B EF EF 01
          <<239, 91, 1, 239>>,      \* EF 5B 01 EF
          <<239, 1, 239, 91>> >>    \* EF 01 EF 5B
Mul5B == MulTab(MdsPoly, 91)
MulEF == MulTab(MdsPoly, 239)
MdsCoef(c, y) == IF c = 1 THEN y ELSE IF c = 91 THEN Mul5B[y] ELSE MulEF[y]
\* z = MDS . y, bytes z0..z3
MdsMul(y) ==
    [i \in 1..4 |-> (MdsCoef(MDS[i][1], y[1]) ^^ MdsCoef(MDS[i][2], y[2]))
                 ^^ (MdsCoef(MDS[i][3], y[3]) ^^ MdsCoef(MDS[i][4], y[4]))]

\* ------------------------------------------------------ RS (section 4.3)
RS == << <<1, 164, 85, 135, 90, 88, 219, 158>>,     \* 01 A4 55 87 5A 58 DB 9E
         <<164, 86, 130, 243, 30, 198, 104, 229>>,  \* A4 56 82 F3 1E C6 68 E5
         <<2, 161, 252, 193, 71, 174, 61, 25>>,     \* 02 A1 FC C1 47 AE 3D 19
         <<164, 85, 135, 90, 88, 219, 158, 3>> >>   \* A4 55 87 5A 58 DB 9E 03
RECURSIVE RsRow(_, _, _)
RsRow(row, m, j) == IF j > 8 THEN 0 ELSE GFMul(RsPoly, row[j], m[j]) ^^ RsRow(row, m, j + 1)
\* (s_{i,0}, .., s_{i,3}) = RS . (m_{8i}, .., m_{8i+7})
RsMul(m) == TLCEval([i \in 1..4 |-> RsRow(RS[i], m, 1)])

\* ------------------------------------------------------------ 32-bit words
Add32(a, b) == LET s == a[1] + b[1]
               IN <<s % 65536, (a[2] + b[2] + (s \div 65536)) % 65536>>
WordOf(b)  == <<b[1] + 256 * b[2], b[3] + 256 * b[4]>>          \* little-endian
BytesOf(w) == <<w[1] % 256, w[1] \div 256, w[2] % 256, w[2] \div 256>>
Rol(w, r) == RotLW(65536, w, r)
Ror(w, r) == RotRW(65536, w, r)

\* ------------------------------------------------- h (section 4.3.2)
\* x: the bytes y_{k,0..3} of the input word X; L = <<L_0, .., L_{k-1}>>, each
\* four bytes l_{i,0..3}.  Result: the 32-bit word Z.
H(x, L) ==
    LET k == Len(L)
        y3 == IF k = 4
              THEN <<Q1[x[1]] ^^ L[4][1], Q0[x[2]] ^^ L[4][2],
                     Q0[x[3]] ^^ L[4][3], Q1[x[4]] ^^ L[4][4]>>
              ELSE x
        y2 == IF k >= 3
              THEN <<Q1[y3[1]] ^^ L[3][1], Q1[y3[2]] ^^ L[3][2],
                     Q0[y3[3]] ^^ L[3][3], Q0[y3[4]] ^^ L[3][4]>>
              ELSE y3
        y == <<Q1[Q0[Q0[y2[1]] ^^ L[2][1]] ^^ L[1][1]],
               Q0[Q0[Q1[y2[2]] ^^ L[2][2]] ^^ L[1][2]],
               Q1[Q1[Q0[y2[3]] ^^ L[2][3]] ^^ L[1][3]],
               Q0[Q1[Q1[y2[4]] ^^ L[2][4]] ^^ L[1][4]]>>
    IN WordOf(MdsMul(y))

\* --------------------------------------------- key schedule (section 4.3)
\* key: 8k bytes, k = 2, 3, 4.  M_i = bytes m_{4i..4i+3}.
KeySchedule(key) ==
    LET k  == Len(key) \div 8
        M(i) == SubSeqB(key, 4 * i + 1, 4 * i + 4)
        Me == TLCEval([j \in 1..k |-> M(2 * (j - 1))])          \* (M_0, M_2, ..)
        Mo == TLCEval([j \in 1..k |-> M(2 * (j - 1) + 1)])      \* (M_1, M_3, ..)
        Sv(i) == RsMul(SubSeqB(key, 8 * i + 1, 8 * i + 8))      \* S_i
        S  == TLCEval([j \in 1..k |-> Sv(k - j)])               \* (S_{k-1}, .., S_0)
        Rho(n) == <<n, n, n, n>>                                \* bytes of n * rho
        Pair(i) == LET A == H(Rho(2 * i), Me)
                       B == Rol(H(Rho(2 * i + 1), Mo), 8)
                       AB == Add32(A, B)
                   IN <<AB, Rol(Add32(AB, B), 9)>>              \* K_2i, K_2i+1
        P  == TLCEval([i \in 1..20 |-> TLCEval(Pair(i - 1))])
    IN [K |-> TLCEval([j \in 1..40 |-> P[((j - 1) \div 2) + 1][((j - 1) % 2) + 1]]),
        S |-> S]

\* ------------------------------------------------ the cipher (section 4.1)
G(ks, X) == H(BytesOf(X), ks.S)
\* (F_0, F_1) of round r (0..15)
F(ks, R0, R1, r) ==
    LET T0 == TLCEval(G(ks, R0))
        T1 == TLCEval(G(ks, Rol(R1, 8)))
        S  == Add32(T0, T1)
    IN <<Add32(S, ks.K[2 * r + 8 + 1]), Add32(Add32(S, T1), ks.K[2 * r + 9 + 1])>>

EncRound(ks, r, R) ==
    LET f == TLCEval(F(ks, R[1], R[2], r))
    IN TLCEval(<<Ror(XorW(R[3], f[1]), 1), XorW(Rol(R[4], 1), f[2]), R[1], R[2]>>)
RECURSIVE EncFrom(_, _, _)
EncFrom(ks, r, R) == IF r > 15 THEN R ELSE EncFrom(ks, r + 1, EncRound(ks, r, R))

Encrypt(ks, in) ==
    LET P   == [i \in 1..4 |-> WordOf(SubSeqB(in, 4 * i - 3, 4 * i))]
        R0  == TLCEval([i \in 1..4 |-> XorW(P[i], ks.K[i])])            \* input whitening
        R16 == EncFrom(ks, 0, R0)
        \* C_i = R_{16,(i+2) mod 4} xor K_{i+4}
        C   == [i \in 0..3 |-> XorW(R16[((i + 2) % 4) + 1], ks.K[i + 4 + 1])]
    IN TLCEval(BytesOf(C[0]) \o BytesOf(C[1]) \o BytesOf(C[2]) \o BytesOf(C[3]))

\* inverse of round r: R is the state after round r, result the state before it
DecRound(ks, r, R) ==
    LET f == TLCEval(F(ks, R[3], R[4], r))
    IN TLCEval(<<R[3], R[4], XorW(Rol(R[1], 1), f[1]), Ror(XorW(R[2], f[2]), 1)>>)
RECURSIVE DecFrom(_, _, _)
DecFrom(ks, r, R) == IF r < 0 THEN R ELSE DecFrom(ks, r - 1, DecRound(ks, r, R))

Decrypt(ks, in) ==
    LET C   == [i \in 0..3 |-> XorW(WordOf(SubSeqB(in, 4 * i + 1, 4 * i + 4)), ks.K[i + 4 + 1])]
        R16 == TLCEval(<<C[2], C[3], C[0], C[1]>>)     \* R_{16,(i+2) mod 4} = C_i xor K_{i+4}
        R0  == DecFrom(ks, 15, R16)
        P   == [i \in 1..4 |-> XorW(R0[i], ks.K[i])]
    IN TLCEval(BytesOf(P[1]) \o BytesOf(P[2]) \o BytesOf(P[3]) \o BytesOf(P[4]))

\* ------------------------------------------------- conformance interface
TwofishSched(type, key, x) == KeySchedule(key)
TwofishEnc(ks, in) == Encrypt(ks, in)
TwofishDec(ks, in) == Decrypt(ks, in)
=============================================================================
