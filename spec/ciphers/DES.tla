-------------------------------- MODULE DES --------------------------------
(***************************************************************************)
(* FIPS 46-3 Data Encryption Algorithm and the Triple-DES bundles, written *)
(* from the standard on bit vectors.  Bit 1 of a block or key is the most  *)
(* significant bit of its first byte (FIPS 46-3 numbering), so every table *)
(* below is the table printed in FIPS 46-3, used as printed:               *)
(*   IP, IP^-1, E, P, PC-1, PC-2, the left-shift schedule, S1..S8.         *)
(* The S-box numbers were taken from /repo/des/src/consts.rs (which stores *)
(* each box indexed directly by the six input bits b1..b6) and re-laid out *)
(* in the FIPS form: 4 rows x 16 columns, row = b1 b6, column = b2 b3 b4   *)
(* b5.  The eight parity bits of a key (bits 8, 16, .., 64) do not occur   *)
(* in PC-1 and are therefore ignored.                                      *)
(*                                                                         *)
(* Triple DES:                                                             *)
(*   TdesEde3  key k1|k2|k3   C = E_k3(D_k2(E_k1(P)))   (SP 800-67 TDEA,   *)
(*                                                      ANSI X9.52 EDE3)   *)
(*   TdesEde2  key k1|k2      EDE with k3 = k1          (keying option 2)  *)
(*   TdesEee3  key k1|k2|k3   C = E_k3(E_k2(E_k1(P)))   (EEE3)             *)
(*   TdesEee2  key k1|k2      EEE with k3 = k1          (EEE2)             *)
(* Decryption is the inverse.                                              *)
(*                                                                         *)
(* Known answers (spec/kat/DES.ndjson):                                    *)
(*   - the worked example 133457799BBCDFF1 / 0123456789ABCDEF ->           *)
(*     85E813540F0AB405 (Grabbe, "The DES Algorithm Illustrated");         *)
(*   - NBS SP 500-20 / NIST SP 800-17 validation tables: variable          *)
(*     plaintext, variable key, permutation operation, substitution table  *)
(*     (selection; every one re-checked with OpenSSL 3);                   *)
(*   - Triple-DES: SP 800-67 style EDE vectors and random EDE2/EDE3        *)
(*     vectors generated with OpenSSL 3 (des-ede-ecb, des-ede3-ecb);       *)
(*     EEE2/EEE3 vectors composed from single-DES OpenSSL calls;           *)
(*   - random single-DES vectors generated with OpenSSL 3 (des-ecb).       *)
(***************************************************************************)
EXTENDS Naturals, Sequences, TLC, Words

\* ------------------------------------------------------------ FIPS tables
IP == <<58, 50, 42, 34, 26, 18, 10,  2,
        60, 52, 44, 36, 28, 20, 12,  4,
        62, 54, 46, 38, 30, 22, 14,  6,
        64, 56, 48, 40, 32, 24, 16,  8,
        57, 49, 41, 33, 25, 17,  9,  1,
        59, 51, 43, 35, 27, 19, 11,  3,
        61, 53, 45, 37, 29, 21, 13,  5,
        63, 55, 47, 39, 31, 23, 15,  7>>

\* IP^-1
FP == <<40,  8, 48, 16, 56, 24, 64, 32,
        39,  7, 47, 15, 55, 23, 63, 31,
        38,  6, 46, 14, 54, 22, 62, 30,
        37,  5, 45, 13, 53, 21, 61, 29,
        36,  4, 44, 12, 52, 20, 60, 28,
        35,  3, 43, 11, 51, 19, 59, 27,
        34,  2, 42, 10, 50, 18, 58, 26,
        33,  1, 41,  9, 49, 17, 57, 25>>

\* E bit-selection table
E == <<32,  1,  2,  3,  4,  5,
        4,  5,  6,  7,  8,  9,
        8,  9, 10, 11, 12, 13,
       12, 13, 14, 15, 16, 17,
       16, 17, 18, 19, 20, 21,
       20, 21, 22, 23, 24, 25,
       24, 25, 26, 27, 28, 29,
       28, 29, 30, 31, 32,  1>>

P == <<16,  7, 20, 21,
       29, 12, 28, 17,
        1, 15, 23, 26,
        5, 18, 31, 10,
        2,  8, 24, 14,
       32, 27,  3,  9,
       19, 13, 30,  6,
       22, 11,  4, 25>>

\* permuted choice 1 (first 28 entries give C0, last 28 give D0)
PC1 == <<57, 49, 41, 33, 25, 17,  9,
          1, 58, 50, 42, 34, 26, 18,
         10,  2, 59, 51, 43, 35, 27,
         19, 11,  3, 60, 52, 44, 36,
         63, 55, 47, 39, 31, 23, 15,
          7, 62, 54, 46, 38, 30, 22,
         14,  6, 61, 53, 45, 37, 29,
         21, 13,  5, 28, 20, 12,  4>>

\* permuted choice 2
PC2 == <<14, 17, 11, 24,  1,  5,
          3, 28, 15,  6, 21, 10,
         23, 19, 12,  4, 26,  8,
         16,  7, 27, 20, 13,  2,
         41, 52, 31, 37, 47, 55,
         30, 40, 51, 45, 33, 48,
         44, 49, 39, 56, 34, 53,
         46, 42, 50, 36, 29, 32>>

\* number of left shifts in iteration 1..16
Shifts == <<1, 1, 2, 2, 2, 2, 2, 2, 1, 2, 2, 2, 2, 2, 2, 1>>

\* S-boxes, FIPS 46-3 layout: S[row + 1][column + 1], row 0..3, column 0..15
S1 == <<
    <<14,  4, 13,  1,  2, 15, 11,  8,  3, 10,  6, 12,  5,  9,  0,  7>>,
    << 0, 15,  7,  4, 14,  2, 13,  1, 10,  6, 12, 11,  9,  5,  3,  8>>,
    << 4,  1, 14,  8, 13,  6,  2, 11, 15, 12,  9,  7,  3, 10,  5,  0>>,
    <<15, 12,  8,  2,  4,  9,  1,  7,  5, 11,  3, 14, 10,  0,  6, 13>>>>
S2 == <<
    <<15,  1,  8, 14,  6, 11,  3,  4,  9,  7,  2, 13, 12,  0,  5, 10>>,
    << 3, 13,  4,  7, 15,  2,  8, 14, 12,  0,  1, 10,  6,  9, 11,  5>>,
    << 0, 14,  7, 11, 10,  4, 13,  1,  5,  8, 12,  6,  9,  3,  2, 15>>,
    <<13,  8, 10,  1,  3, 15,  4,  2, 11,  6,  7, 12,  0,  5, 14,  9>>>>
S3 == <<
    <<10,  0,  9, 14,  6,  3, 15,  5,  1, 13, 12,  7, 11,  4,  2,  8>>,
    <<13,  7,  0,  9,  3,  4,  6, 10,  2,  8,  5, 14, 12, 11, 15,  1>>,
    <<13,  6,  4,  9,  8, 15,  3,  0, 11,  1,  2, 12,  5, 10, 14,  7>>,
    << 1, 10, 13,  0,  6,  9,  8,  7,  4, 15, 14,  3, 11,  5,  2, 12>>>>
S4 == <<
    << 7, 13, 14,  3,  0,  6,  9, 10,  1,  2,  8,  5, 11, 12,  4, 15>>,
    <<13,  8, 11,  5,  6, 15,  0,  3,  4,  7,  2, 12,  1, 10, 14,  9>>,
    <<10,  6,  9,  0, 12, 11,  7, 13, 15,  1,  3, 14,  5,  2,  8,  4>>,
    << 3, 15,  0,  6, 10,  1, 13,  8,  9,  4,  5, 11, 12,  7,  2, 14>>>>
S5 == <<
    << 2, 12,  4,  1,  7, 10, 11,  6,  8,  5,  3, 15, 13,  0, 14,  9>>,
    <<14, 11,  2, 12,  4,  7, 13,  1,  5,  0, 15, 10,  3,  9,  8,  6>>,
    << 4,  2,  1, 11, 10, 13,  7,  8, 15,  9, 12,  5,  6,  3,  0, 14>>,
    <<11,  8, 12,  7,  1, 14,  2, 13,  6, 15,  0,  9, 10,  4,  5,  3>>>>
S6 == <<
    <<12,  1, 10, 15,  9,  2,  6,  8,  0, 13,  3,  4, 14,  7,  5, 11>>,
    <<10, 15,  4,  2,  7, 12,  9,  5,  6,  1, 13, 14,  0, 11,  3,  8>>,
    << 9, 14, 15,  5,  2,  8, 12,  3,  7,  0,  4, 10,  1, 13, 11,  6>>,
    << 4,  3,  2, 12,  9,  5, 15, 10, 11, 14,  1,  7,  6,  0,  8, 13>>>>
S7 == <<
    << 4, 11,  2, 14, 15,  0,  8, 13,  3, 12,  9,  7,  5, 10,  6,  1>>,
    <<13,  0, 11,  7,  4,  9,  1, 10, 14,  3,  5, 12,  2, 15,  8,  6>>,
    << 1,  4, 11, 13, 12,  3,  7, 14, 10, 15,  6,  8,  0,  5,  9,  2>>,
    << 6, 11, 13,  8,  1,  4, 10,  7,  9,  5,  0, 15, 14,  2,  3, 12>>>>
S8 == <<
    <<13,  2,  8,  4,  6, 15, 11,  1, 10,  9,  3, 14,  5,  0, 12,  7>>,
    << 1, 15, 13,  8, 10,  3,  7,  4, 12,  5,  6, 11,  0, 14,  9,  2>>,
    << 7, 11,  4,  1,  9, 12, 14,  2,  0,  6, 10, 13, 15,  3,  5,  8>>,
    << 2,  1, 14,  7,  4, 10,  8, 13, 15, 12,  9,  0,  3,  5,  6, 11>>>>
SBoxes == <<S1, S2, S3, S4, S5, S6, S7, S8>>

\* sanity of the transcription: IP and IP^-1 are inverse permutations of 1..64, P is a
\* permutation of 1..32, E covers 1..32, PC-1 selects the 56 non-parity bits, PC-2 selects 48
\* distinct bits of 1..56 (omitting 9, 18, 22, 25, 35, 38, 43, 54), every S-box row is a
\* permutation of 0..15.
ASSUME /\ Len(IP) = 64 /\ Len(FP) = 64 /\ \A i \in 1..64 : FP[IP[i]] = i /\ IP[FP[i]] = i
       /\ Len(P) = 32 /\ {P[i] : i \in 1..32} = 1..32
       /\ Len(E) = 48 /\ {E[i] : i \in 1..48} = 1..32
       /\ Len(PC1) = 56 /\ {PC1[i] : i \in 1..56} = (1..64) \ {8 * j : j \in 1..8}
       /\ Len(PC2) = 48 /\ {PC2[i] : i \in 1..48} = (1..56) \ {9, 18, 22, 25, 35, 38, 43, 54}
       /\ Len(Shifts) = 16
       /\ \A k \in 1..8 : \A r \in 1..4 : {SBoxes[k][r][c] : c \in 1..16} = 0..15

\* ------------------------------------------------------------- primitives
\* output bit i is input bit tab[i]
Permute(bits, tab) == TLCEval([i \in 1..Len(tab) |-> bits[tab[i]]])

\* the 4-bit output of S_k for the k-th 6-bit block of the 48-bit vector b
SBoxOut(b, k) ==
    LET o   == 6 * (k - 1)
        row == 2 * b[o + 1] + b[o + 6]
        col == 8 * b[o + 2] + 4 * b[o + 3] + 2 * b[o + 4] + b[o + 5]
    IN SBoxes[k][row + 1][col + 1]

\* the cipher function f(R, K): R 32 bits, K 48 bits -> 32 bits
F(R, K) ==
    LET b    == XorBits(Permute(R, E), K)
        nib  == TLCEval([k \in 1..8 |-> SBoxOut(b, k)])
        sout == TLCEval([i \in 1..32 |->
                   (nib[((i - 1) \div 4) + 1] \div Pow2(3 - ((i - 1) % 4))) % 2])
    IN Permute(sout, P)

\* ----------------------------------------------------------- key schedule
\* left rotation of a 28-bit vector by s places
RotL28(v, s) == TLCEval([i \in 1..28 |-> v[((i - 1 + s) % 28) + 1]])

RECURSIVE KSFrom(_, _, _, _)
\* n: iteration to produce (1..16); C, D: C_{n-1}, D_{n-1}; acc: K_1..K_{n-1}
KSFrom(n, C, D, acc) ==
    IF n > 16 THEN acc
    ELSE LET Cn == RotL28(C, Shifts[n])
             Dn == RotL28(D, Shifts[n])
             Kn == Permute(Cn \o Dn, PC2)
         IN KSFrom(n + 1, Cn, Dn, Append(acc, Kn))

\* KS: 8 key bytes -> <<K1, .., K16>>, each 48 bits
KS(key) ==
    LET cd == Permute(BitsMSB(key), PC1)
    IN TLCEval(KSFrom(1, SubSeqB(cd, 1, 28), SubSeqB(cd, 29, 56), <<>>))

\* ---------------------------------------------------------- the algorithm
RECURSIVE Iterate(_, _, _, _, _)
\* 16 iterations L_n = R_{n-1}, R_n = L_{n-1} xor f(R_{n-1}, K_idx(n)); returns the
\* pre-output block R16 L16.  enc: K_n in order 1..16; dec: 16..1.
Iterate(ks, enc, n, L, R) ==
    IF n > 16 THEN TLCEval(R \o L)
    ELSE LET K == IF enc THEN ks[n] ELSE ks[17 - n]
         IN Iterate(ks, enc, n + 1, R, XorBits(L, F(R, K)))

Crypt(ks, enc, in) ==
    LET lr == Permute(BitsMSB(in), IP)
        pre == Iterate(ks, enc, 1, SubSeqB(lr, 1, 32), SubSeqB(lr, 33, 64))
    IN FromBitsMSB(Permute(pre, FP))

Encipher(ks, in) == Crypt(ks, TRUE, in)
Decipher(ks, in) == Crypt(ks, FALSE, in)

\* ------------------------------------------------- conformance interface
DESKeyLen(type) ==
    IF type = "Des" THEN 8
    ELSE IF type \in {"TdesEde2", "TdesEee2"} THEN 16
    ELSE 24

Ede == {"TdesEde2", "TdesEde3"}
Eee == {"TdesEee2", "TdesEee3"}

DESSched(type, key, extra) ==
    IF type = "Des" THEN [type |-> type, k1 |-> KS(key)]
    ELSE LET k1 == KS(SubSeqB(key, 1, 8))
             k2 == KS(SubSeqB(key, 9, 16))
             k3 == IF type \in {"TdesEde2", "TdesEee2"} THEN k1 ELSE KS(SubSeqB(key, 17, 24))
         IN [type |-> type, k1 |-> k1, k2 |-> k2, k3 |-> k3]

DESEnc(ks, in) ==
    IF ks.type = "Des" THEN Encipher(ks.k1, in)
    ELSE IF ks.type \in Ede THEN Encipher(ks.k3, Decipher(ks.k2, Encipher(ks.k1, in)))
    ELSE Encipher(ks.k3, Encipher(ks.k2, Encipher(ks.k1, in)))

DESDec(ks, in) ==
    IF ks.type = "Des" THEN Decipher(ks.k1, in)
    ELSE IF ks.type \in Ede THEN Decipher(ks.k1, Encipher(ks.k2, Decipher(ks.k3, in)))
    ELSE Decipher(ks.k1, Decipher(ks.k2, Decipher(ks.k3, in)))
=============================================================================
