SPECIFICATION Spec
CONSTANTS MaxSteps = 4
VIEW view
INVARIANT TypeOK
PROPERTY ProbeIsPure
ACTION_CONSTRAINT EmitScenario
CHECK_DEADLOCK FALSE
