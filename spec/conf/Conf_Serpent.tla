---------------------------- MODULE Conf_Serpent ----------------------------
EXTENDS Serpent, Json, IOUtils
VARIABLES tpos, inst
Rec == ndJsonDeserialize(IOEnv.TRACE)
OSched(t, k, x) == SerpentSched(t, k, x)
OEnc(ks, b) == SerpentEnc(ks, b)
ODec(ks, b) == SerpentDec(ks, b)
ExtraKinds == {}
INSTANCE ConfBase
=============================================================================
