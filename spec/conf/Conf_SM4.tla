------------------------------ MODULE Conf_SM4 ------------------------------
EXTENDS SM4, Json, IOUtils
VARIABLES tpos, inst
Rec == ndJsonDeserialize(IOEnv.TRACE)
OSched(t, k, x) == SM4Sched(t, k, x)
OEnc(ks, b) == SM4Enc(ks, b)
ODec(ks, b) == SM4Dec(ks, b)
ExtraKinds == {}
INSTANCE ConfBase
=============================================================================
