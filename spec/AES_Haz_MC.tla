----------------------------- MODULE AES_Haz_MC -----------------------------
(***************************************************************************)
(* Spec-level facts about the FIPS-197 round transformations that C17      *)
(* relies on, checked exhaustively by TLC over step = 0..255:                 *)
(*  - InvSubBytes o SubBytes = id on every byte value;                     *)
(*  - InvMixColumns o MixColumns = id = MixColumns o InvMixColumns on the  *)
(*    4 x 256 single-byte columns (a spanning set: both maps are           *)
(*    GF(2)-linear by construction, so identity on a spanning set is       *)
(*    identity everywhere);                                                *)
(*  - InvShiftRows o ShiftRows = id;                                       *)
(*  - equiv_inv_cipher_round undoes the cipher round in the sense of       *)
(*    FIPS-197 5.3.5: EqInv(Round(b,k) xor k, 0) = MixColumns^-1 ... step.e.  *)
(*    InvSubBytes(InvShiftRows(InvMixColumns(Round(b, k) xor k))) = b;     *)
(*  - the FIPS-197 Appendix C.1 round-1 values.                            *)
(***************************************************************************)
EXTENDS AES

VARIABLE step
Init == step = 0
Next == step < 255 /\ step' = step + 1
Spec == Init /\ [][Next]_step

Zero16 == [j \in 1..16 |-> 0]
Unit(pos, v) == [j \in 1..16 |-> IF j = pos THEN v ELSE 0]
Ramp(v) == [j \in 1..16 |-> (v + 17 * j) % 256]

SubInverse == InvSBox[SBox[step]] = step /\ SBox[InvSBox[step]] = step
MixInverse == \A pos \in 1..16 :
    /\ InvMixColumns(MixColumns(Unit(pos, step))) = Unit(pos, step)
    /\ MixColumns(InvMixColumns(Unit(pos, step))) = Unit(pos, step)
ShiftInverse == InvShiftRows(ShiftRows(Ramp(step))) = Ramp(step) /\ ShiftRows(InvShiftRows(Ramp(step))) = Ramp(step)
RoundInverse ==
    LET b == Ramp(step)  k == Ramp(255 - step)
    IN InvSubBytes(InvShiftRows(InvMixColumns(AddRoundKey(CipherRound(b, k), k)))) = b
\* FIPS-197 Appendix C.1, round 1: start, after s_box, s_row, m_col, and the round output
C1Start == <<0, 16, 32, 48, 64, 80, 96, 112, 128, 144, 160, 176, 192, 208, 224, 240>>
C1SBox  == <<99, 202, 183, 4, 9, 83, 208, 81, 205, 96, 224, 231, 186, 112, 225, 140>>
C1SRow  == <<99, 83, 224, 140, 9, 96, 225, 4, 205, 112, 183, 81, 186, 202, 208, 231>>
C1MCol  == <<95, 114, 100, 21, 87, 245, 188, 146, 247, 190, 59, 41, 29, 185, 249, 26>>
C1KSch  == <<214, 170, 116, 253, 210, 175, 114, 250, 218, 166, 120, 241, 214, 171, 118, 254>>
C1Next  == <<137, 216, 16, 232, 133, 90, 206, 104, 45, 24, 67, 216, 203, 18, 143, 228>>
FipsC1 ==
    /\ SubBytes(C1Start) = C1SBox
    /\ ShiftRows(C1SBox) = C1SRow
    /\ MixColumns(C1SRow) = C1MCol
    /\ CipherRound(C1Start, C1KSch) = C1Next
=============================================================================
