---------------------------- MODULE RoundInverse ----------------------------
(***************************************************************************)
(* TLAPS-checked lemmas (spec-level support for C01): every round *shape*  *)
(* used by the ciphers of the workspace is invertible for an ARBITRARY     *)
(* round function F and round key, given only the group axioms of the      *)
(* combining operations.  Decryption in the L2 modules applies the inverse *)
(* round shapes with the round keys in reverse order.                      *)
(*                                                                         *)
(*  - balanced Feistel round        (DES, Blowfish, CAST-128, Magma,       *)
(*                                   Camellia, XTEA half-round, Twofish)   *)
(*  - 4-branch generalised Feistel  (SM4, CAST-256 quad-round step)        *)
(*  - ARX round                     (Speck; RC5 half-round is the same     *)
(*                                   with a data-dependent rotation)       *)
(*  - key-XOR + substitution + linear layer (AES, ARIA, Kuznyechik,        *)
(*                                   Serpent) given bijective S and L      *)
(*                                                                         *)
(* Checked with: tlapm --threads 8 RoundInverse.tla                        *)
(***************************************************************************)
EXTENDS TLAPS

CONSTANTS W,              \* the set of words
          Xor(_, _),      \* an involutive combiner
          Add(_, _), Sub(_, _),     \* a group operation and its inverse
          RotL(_, _), RotR(_, _),   \* rotations by an amount from R
          R,
          K,              \* round keys
          F(_, _),        \* arbitrary round function (key, word) -> word
          S(_), SInv(_),  \* substitution layer and its inverse
          L(_), LInv(_)   \* linear layer and its inverse

ASSUME XorT == \A a, b \in W : Xor(a, b) \in W
ASSUME XorInv == \A a, b \in W : Xor(Xor(a, b), b) = a
ASSUME AddT == \A a, b \in W : Add(a, b) \in W /\ Sub(a, b) \in W
ASSUME AddInv == \A a, b \in W : Sub(Add(a, b), b) = a /\ Add(Sub(a, b), b) = a
ASSUME RotT == \A a \in W, r \in R : RotL(a, r) \in W /\ RotR(a, r) \in W
ASSUME RotInv == \A a \in W, r \in R : RotR(RotL(a, r), r) = a /\ RotL(RotR(a, r), r) = a
ASSUME FT == \A k \in K, x \in W : F(k, x) \in W
ASSUME ST == \A x \in W : S(x) \in W /\ SInv(x) \in W /\ SInv(S(x)) = x /\ S(SInv(x)) = x
ASSUME LT == \A x \in W : L(x) \in W /\ LInv(x) \in W /\ LInv(L(x)) = x /\ L(LInv(x)) = x
ASSUME KW == K \subseteq W

\* ---- balanced Feistel: (l, r) -> (r, l xor F(k, r)) ----
Feistel(k, s) == <<s[2], Xor(s[1], F(k, s[2]))>>
FeistelInv(k, s) == <<Xor(s[2], F(k, s[1])), s[1]>>
THEOREM FeistelRoundInverse ==
    \A k \in K, s \in W \X W : FeistelInv(k, Feistel(k, s)) = s /\ Feistel(k, FeistelInv(k, s)) = s
  BY XorT, XorInv, FT DEF Feistel, FeistelInv

\* ---- 4-branch generalised Feistel (SM4): (x0,x1,x2,x3) -> (x1,x2,x3, x0 xor F(k, x1 xor x2 xor x3)) ----
GF4(k, s) == <<s[2], s[3], s[4], Xor(s[1], F(k, Xor(Xor(s[2], s[3]), s[4])))>>
GF4Inv(k, s) == <<Xor(s[4], F(k, Xor(Xor(s[1], s[2]), s[3]))), s[1], s[2], s[3]>>
THEOREM GF4RoundInverse ==
    \A k \in K, s \in W \X W \X W \X W : GF4Inv(k, GF4(k, s)) = s
  BY XorT, XorInv, FT DEF GF4, GF4Inv

\* ---- ARX (Speck): x' = (RotR(x, a) + y) xor k ; y' = RotL(y, b) xor x' ----
Arx(k, a, b, s) ==
    LET x1 == Xor(Add(RotR(s[1], a), s[2]), k) IN <<x1, Xor(RotL(s[2], b), x1)>>
ArxInv(k, a, b, s) ==
    LET y0 == RotR(Xor(s[2], s[1]), b) IN <<RotL(Sub(Xor(s[1], k), y0), a), y0>>
THEOREM ArxRoundInverse ==
    \A k \in K, a, b \in R, s \in W \X W : ArxInv(k, a, b, Arx(k, a, b, s)) = s
  <1> SUFFICES ASSUME NEW k \in K, NEW a \in R, NEW b \in R, NEW s \in W \X W
               PROVE ArxInv(k, a, b, Arx(k, a, b, s)) = s
      OBVIOUS
  <1> DEFINE x == s[1]
  <1> DEFINE y == s[2]
  <1>0. x \in W /\ y \in W /\ k \in W /\ s = <<x, y>>
      BY KW
  <1> DEFINE x1 == Xor(Add(RotR(x, a), y), k)
  <1> DEFINE y1 == Xor(RotL(y, b), x1)
  <1>1. RotR(x, a) \in W /\ Add(RotR(x, a), y) \in W /\ x1 \in W /\ RotL(y, b) \in W /\ y1 \in W
      BY <1>0, XorT, AddT, RotT
  <1>2. Xor(y1, x1) = RotL(y, b)
      BY <1>1, XorInv
  <1>3. RotR(Xor(y1, x1), b) = y
      BY <1>2, <1>0, RotInv
  <1>4. Xor(x1, k) = Add(RotR(x, a), y)
      BY <1>1, <1>0, XorInv
  <1>5. Sub(Xor(x1, k), y) = RotR(x, a)
      BY <1>4, <1>1, <1>0, AddInv
  <1>6. RotL(Sub(Xor(x1, k), y), a) = x
      BY <1>5, <1>0, RotInv
  <1>7. Arx(k, a, b, s) = <<x1, y1>>
      BY DEF Arx
  <1>8. ArxInv(k, a, b, <<x1, y1>>) = <<x, y>>
      BY <1>3, <1>6 DEF ArxInv
  <1> QED BY <1>7, <1>8, <1>0

\* ---- substitution-permutation round: x -> L(S(x xor k)) ----
Spn(k, x) == L(S(Xor(x, k)))
SpnInv(k, y) == Xor(SInv(LInv(y)), k)
THEOREM SpnRoundInverse ==
    \A k \in K, x \in W : SpnInv(k, Spn(k, x)) = x
  BY XorT, XorInv, ST, LT, KW DEF Spn, SpnInv
=============================================================================
