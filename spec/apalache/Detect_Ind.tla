----------------------------- MODULE Detect_Ind -----------------------------
(***************************************************************************)
(* Inductive invariant of Detect.tla for Apalache (optional thorough-tier  *)
(* extra of C15): IndInv holds initially and is preserved by every step,   *)
(* for behaviours of ANY length (data sizes bounded by the generators:     *)
(* 3 threads, modification order of up to 5 stores, up to 4 instances).    *)
(*   apalache-mc check --init=Init    --inv=IndInv --length=0              *)
(*   apalache-mc check --init=IndInit --inv=IndInv --length=1              *)
(*   IndInv => ArmStable /\ StorageMonotone /\ OneArm   (by definition)    *)
(***************************************************************************)
EXTENDS Detect, Apalache

ConstInit == Threads = {1, 2, 3} /\ MaxInst = 4 /\ Cpu = "yes"

PcVals == {"idle", "loaded", "detected", "built"}
IndInv ==
    /\ Len(mo) >= 1 /\ mo[1] = UNINIT
    /\ \A p \in DOMAIN mo : p >= 2 => mo[p] = Cpu
    /\ DOMAIN seen = Threads /\ DOMAIN pc = Threads /\ DOMAIN tmp = Threads
    /\ \A t \in Threads :
         /\ seen[t] >= 1 /\ seen[t] <= Len(mo)
         /\ pc[t] \in PcVals
         /\ tmp[t] \in {UNINIT, Cpu}
         \* a loaded value other than UNINIT was read at a position >= 2 (the frontier only moves forward afterwards)
         /\ (pc[t] = "loaded" /\ tmp[t] # UNINIT) => seen[t] >= 2
         /\ pc[t] = "detected" => tmp[t] = Cpu
         /\ pc[t] = "built" => (tmp[t] = Cpu /\ seen[t] >= 2)
    /\ \A i \in insts : i.arm = Cpu /\ i.owner \in Threads /\ seen[i.owner] >= 2
    /\ \A u \in used : u.read = u.built
    /\ nextId >= 1

IndInit ==
    /\ mo = Gen(5)
    /\ seen = Gen(3) /\ pc = Gen(3) /\ tmp = Gen(3)
    /\ insts = Gen(4) /\ used = Gen(4)
    /\ nextId = Gen(1)
    /\ IndInv

\* the properties of C15 are consequences of IndInv
Implied == IndInv => (ArmStable /\ StorageMonotone /\ OneArm)
=============================================================================
