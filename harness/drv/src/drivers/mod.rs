//! Drivers: each sub-command produces one kind of trace.

use crate::Args;
use crate::cat::*;
use crate::ev::{self, Out, catch};
use crate::rng::Rng;
use crate::types;
use serde_json::{Value, json};

mod api;
mod batch;
mod conf;
mod misc;
pub mod special;
mod threads;

pub struct Ctx<'a> {
    pub out: &'a Out,
    pub next_id: u64,
    pub run: u64,
    pub cfg: String,
    pub types: Vec<TypeOps>,
    /// events are buffered here instead of written when `Some` (thread driver)
    pub buf: Option<Vec<Value>>,
}

pub fn prof() -> &'static str {
    if cfg!(debug_assertions) { "dev" } else { "release" }
}

/// key lengths the slice constructor is documented to accept (driver-side enumeration only; the
/// contract itself is judged by the specification's `KeyLens`)
pub fn key_lens(t: &TypeOps, all: bool) -> Vec<usize> {
    let pick = |v: Vec<usize>, few: &[usize]| -> Vec<usize> {
        if all { v } else { few.to_vec() }
    };
    match t.name {
        "Blowfish" | "BlowfishLE" => pick((4..=56).collect(), &[4, 7, 16, 56]),
        "Cast5" => pick((5..=16).collect(), &[5, 10, 11, 16]),
        "Cast6" => vec![16, 20, 24, 28, 32],
        "Rc2" => pick((1..=128).collect(), &[1, 5, 8, 16, 127, 128]),
        "Serpent" => pick((16..=32).collect(), &[16, 17, 24, 31, 32]),
        "Twofish" => vec![16, 24, 32],
        _ => vec![t.key_size],
    }
}

impl<'a> Ctx<'a> {
    pub fn new(out: &'a Out, args: &Args) -> Self {
        Ctx {
            out,
            next_id: 1,
            run: 0,
            cfg: args.get("cfg-id").unwrap_or("default").to_string(),
            types: types::all_types(),
            buf: None,
        }
    }
    pub fn emit(&mut self, v: Value) {
        match &mut self.buf {
            Some(b) => b.push(v),
            None => self.out.emit(v),
        }
    }
    pub fn ty(&self, name: &str) -> Option<usize> {
        self.types.iter().position(|t| t.name == name)
    }
    /// types selected by `--types a,b` / `--family X,Y` (default: all)
    pub fn select(&self, args: &Args) -> Vec<usize> {
        let tl = args.list("types");
        let fl = args.list("family");
        (0..self.types.len())
            .filter(|&i| {
                let t = &self.types[i];
                (tl.is_empty() && fl.is_empty())
                    || tl.iter().any(|n| n == t.name)
                    || fl.iter().any(|f| f == t.family)
            })
            .collect()
    }
    pub fn reset(&mut self, what: &str) {
        self.run += 1;
        let v = json!({"ev":"reset","run":self.run,"cfg":self.cfg,"prof":prof(),"what":what});
        self.emit(v);
    }
    pub fn end(&mut self) {
        let v = json!({"ev":"end","run":self.run});
        self.emit(v);
    }
    pub fn fresh_id(&mut self) -> u64 {
        let id = self.next_id;
        self.next_id += 1;
        id
    }

    /// `via`: "slice" | "new" | "checked"
    pub fn construct(&mut self, ti: usize, via: &str, key: &[u8], kc: &str) -> Option<(u64, Box<dyn Inst>)> {
        let t = &self.types[ti];
        let name = t.name;
        let x: Vec<u8> = types::sbox_of(name).unwrap_or_default();
        let r: Result<Result<Box<dyn Inst>, &'static str>, String> = match via {
            "slice" => {
                let f = t.new_slice;
                catch(|| f(key).map_err(|_| "invalid_length"))
            }
            "new" => {
                let f = t.new_arr;
                catch(|| Ok(f(key)))
            }
            "checked" => {
                let f = t.new_checked;
                catch(|| f(key).map_err(|_| "weak_key"))
            }
            _ => panic!("bad via"),
        };
        let id = self.fresh_id();
        let (outs, inst, msg) = match r {
            Ok(Ok(i)) => ("ok", Some(i), None),
            Ok(Err(e)) => (e, None, None),
            Err(m) => ("panic", None, Some(m)),
        };
        let mut v = json!({"ev":"new","id":id,"type":name,"via":via,"key":key,"x":x,"out":outs,"kc":kc});
        if let Some(m) = msg {
            v["msg"] = json!(m);
        }
        self.emit(v);
        inst.map(|i| (id, i))
    }

    pub fn construct_extra(&mut self, ti: usize, via: &str, key: &[u8], extra: &[u8], kc: &str) -> Option<(u64, Box<dyn Inst>)> {
        let name = self.types[ti].name;
        let r = catch(|| types::new_extra(name, via, key, extra));
        let id = self.fresh_id();
        let (outs, inst) = match r {
            Ok(Some(i)) => ("ok", Some(i)),
            Ok(None) => return None,
            Err(_) => ("panic", None),
        };
        let v = json!({"ev":"new","id":id,"type":name,"via":via,"key":key,"x":extra,"out":outs,"kc":kc});
        self.emit(v);
        inst.map(|i| (id, i))
    }

    /// single-block call; returns the output on success
    pub fn one(&mut self, id: u64, inst: &dyn Inst, dir: Dir, shape: Shape, inp: &[u8]) -> Option<Vec<u8>> {
        let r = catch(|| match dir {
            Dir::Enc => inst.enc1(shape, inp),
            Dir::Dec => inst.dec1(shape, inp),
        });
        match r {
            Ok(None) => None,
            Ok(Some(o)) => {
                let v = json!({"ev":dir.name(),"id":id,"shape":shape.name(),"in":inp,"out":o.out,
                               "in_after":o.in_after,"outcome":"ok"});
                self.emit(v);
                Some(o.out)
            }
            Err(m) => {
                let v = json!({"ev":dir.name(),"id":id,"shape":shape.name(),"in":inp,"out":[],
                               "in_after":[],"outcome":"panic","msg":m});
                self.emit(v);
                None
            }
        }
    }

    /// multi-block call
    #[allow(clippy::too_many_arguments)]
    pub fn many(
        &mut self,
        id: u64,
        inst: &dyn Inst,
        dir: Dir,
        shape: Shape,
        inp: &[u8],
        off_in: usize,
        off_out: usize,
        out_n: Option<usize>,
    ) -> Option<Vec<u8>> {
        let bs = inst.bs();
        let par = catch(|| match dir {
            Dir::Enc => inst.par_e(),
            Dir::Dec => inst.par_d(),
        })
        .ok()
        .flatten()?;
        let r = catch(|| match dir {
            Dir::Enc => inst.encn(shape, inp, off_in, off_out, out_n),
            Dir::Dec => inst.decn(shape, inp, off_in, off_out, out_n),
        });
        let n = inp.len() / bs;
        match r {
            Ok(None) => None,
            Ok(Some(m)) => {
                let v = json!({"ev":"blocks","id":id,"dir":dir.name(),"shape":shape.name(),"n":n,"par":par,
                    "off_in":off_in,"off_out":off_out,"on":out_n.unwrap_or(n),
                    "in":ev::blocks(inp, bs),"out":ev::blocks(&m.out, bs),"in_after":ev::blocks(&m.in_after, bs),
                    "guard_bad":m.guard_bad,"len_err":m.len_err,"outcome":"ok"});
                self.emit(v);
                Some(m.out)
            }
            Err(msg) => {
                let v = json!({"ev":"blocks","id":id,"dir":dir.name(),"shape":shape.name(),"n":n,"par":par,
                    "off_in":off_in,"off_out":off_out,"on":out_n.unwrap_or(n),
                    "in":ev::blocks(inp, bs),"out":[],"in_after":[],
                    "guard_bad":0,"len_err":false,"outcome":"panic","msg":msg});
                self.emit(v);
                None
            }
        }
    }

    /// direct backend call (one par step + tail), logged as a `blocks` event of shape "direct"
    pub fn direct(&mut self, id: u64, inst: &dyn Inst, dir: Dir, inp: &[u8]) -> Option<Vec<u8>> {
        let bs = inst.bs();
        let par = match dir {
            Dir::Enc => inst.par_e(),
            Dir::Dec => inst.par_d(),
        }?;
        let r = catch(|| match dir {
            Dir::Enc => inst.direct_e(inp),
            Dir::Dec => inst.direct_d(inp),
        });
        let n = inp.len() / bs;
        match r {
            Ok(None) => None,
            Ok(Some(o)) => {
                let v = json!({"ev":"blocks","id":id,"dir":dir.name(),"shape":"direct","n":n,"par":par,
                    "off_in":0,"off_out":0,"on":n,
                    "in":ev::blocks(inp, bs),"out":ev::blocks(&o, bs),"in_after":ev::blocks(inp, bs),
                    "guard_bad":0,"len_err":false,"outcome":"ok"});
                self.emit(v);
                Some(o)
            }
            Err(msg) => {
                let v = json!({"ev":"blocks","id":id,"dir":dir.name(),"shape":"direct","n":n,"par":par,
                    "off_in":0,"off_out":0,"on":n,"in":ev::blocks(inp, bs),"out":[],"in_after":[],
                    "guard_bad":0,"len_err":false,"outcome":"panic","msg":msg});
                self.emit(v);
                None
            }
        }
    }

    pub fn clone_of(&mut self, src: u64, inst: &dyn Inst) -> Option<(u64, Box<dyn Inst>)> {
        let r = catch(|| inst.clone_box());
        match r {
            Ok(None) => None,
            Ok(Some(c)) => {
                let id = self.fresh_id();
                let v = json!({"ev":"clone","src":src,"id":id,"out":"ok"});
                self.emit(v);
                Some((id, c))
            }
            Err(m) => {
                let id = self.fresh_id();
                let v = json!({"ev":"clone","src":src,"id":id,"out":"panic","msg":m});
                self.emit(v);
                None
            }
        }
    }

    /// `dst.clone_from(src)`: the value that lived under `dst_id` is gone (a `drop` event), the object continues under a
    /// fresh id as a clone of `src`.  Returns the new id (None: not `Clone`, or different types).
    pub fn clone_from(&mut self, dst_id: u64, dst: &mut Box<dyn Inst>, src_id: u64, src: &dyn Inst) -> Option<u64> {
        let r = catch(std::panic::AssertUnwindSafe(|| dst.clone_from_inst(src)));
        match r {
            Ok(false) => None,
            Ok(true) => {
                self.emit(json!({"ev":"drop","id":dst_id,"out":"ok"}));
                let id = self.fresh_id();
                self.emit(json!({"ev":"clone","src":src_id,"id":id,"out":"ok","via":"clone_from"}));
                Some(id)
            }
            Err(m) => {
                self.emit(json!({"ev":"drop","id":dst_id,"out":"ok"}));
                let id = self.fresh_id();
                self.emit(json!({"ev":"clone","src":src_id,"id":id,"out":"panic","msg":m,"via":"clone_from"}));
                None
            }
        }
    }

    pub fn conv_ref(&mut self, src: u64, inst: &dyn Inst, to: &str) -> Option<(u64, Box<dyn Inst>)> {
        let r = catch(|| inst.conv_ref(to));
        match r {
            Ok(None) => None,
            Ok(Some(c)) => {
                let id = self.fresh_id();
                let v = json!({"ev":"from","src":src,"id":id,"to":to,"by":"ref","out":"ok"});
                self.emit(v);
                Some((id, c))
            }
            Err(m) => {
                let id = self.fresh_id();
                let v = json!({"ev":"from","src":src,"id":id,"to":to,"by":"ref","out":"panic","msg":m});
                self.emit(v);
                None
            }
        }
    }

    /// by-value conversion consumes the source (the source id is dead afterwards)
    pub fn conv_val(&mut self, src: u64, inst: Box<dyn Inst>, to: &str) -> Option<(u64, Box<dyn Inst>)> {
        let to_s = to.to_string();
        let r = catch(move || inst.conv_val(&to_s));
        match r {
            Ok(None) => None,
            Ok(Some(c)) => {
                let id = self.fresh_id();
                let v = json!({"ev":"from","src":src,"id":id,"to":to,"by":"value","out":"ok"});
                self.emit(v);
                Some((id, c))
            }
            Err(m) => {
                let id = self.fresh_id();
                let v = json!({"ev":"from","src":src,"id":id,"to":to,"by":"value","out":"panic","msg":m});
                self.emit(v);
                None
            }
        }
    }

    pub fn drop_inst(&mut self, id: u64, inst: Box<dyn Inst>) {
        let r = catch(move || drop(inst));
        let v = json!({"ev":"drop","id":id,"out": if r.is_ok() {"ok"} else {"panic"}});
        self.emit(v);
    }
}

pub fn run(args: &Args, out: &Out) -> i32 {
    let mut cx = Ctx::new(out, args);
    let seed = args.num("seed", 1);
    let mut rng = Rng::new(seed);
    // hook builds only: make CPU feature detection report "no AES intrinsics" for the whole run
    if args.get("force-off") == Some("1") {
        if !special::hook_present() {
            eprintln!("--force-off needs a --cfg block_ciphers_verif build");
            return 2;
        }
        special::set_force_off(true);
        crate::zero::FORCE_OFF_RUN.store(true, std::sync::atomic::Ordering::Relaxed);
    }
    match args.cmd.as_str() {
        "conf" => conf::run(&mut cx, args, &mut rng),
        "roundtrip" => conf::roundtrip(&mut cx, args, &mut rng),
        "batch" => batch::run(&mut cx, args, &mut rng),
        "lengths" => misc::lengths(&mut cx, args, &mut rng),
        "weak" => misc::weak(&mut cx, args, &mut rng),
        "names" => misc::names(&mut cx, args, &mut rng),
        "desrel" => misc::desrel(&mut cx, args, &mut rng),
        "zeroize" => misc::zeroize(&mut cx, args, &mut rng),
        "hazmat" => special::hazmat(&mut cx, args, &mut rng),
        "bcrypt" => special::bcrypt(&mut cx, args, &mut rng),
        "wblock" => special::wblock(&mut cx, args, &mut rng),
        "api" => api::walk(&mut cx, args, &mut rng),
        "clones" => api::clones(&mut cx, args, &mut rng),
        "order" => api::order(&mut cx, args, &mut rng),
        "longuse" => api::longuse(&mut cx, args, &mut rng),
        "replay" => api::replay(&mut cx, args, &mut rng),
        "threads" => threads::run(&mut cx, args, &mut rng),
        "types" => {
            for t in &cx.types {
                println!(
                    "{}",
                    json!({"type":t.name,"family":t.family,"kind":t.kind.name(),"bs":t.bs,"key_size":t.key_size,
                           "size_of":t.size_of,"conv":(t.conv_targets)(),"send":(t.send)(),"sync":(t.sync)()})
                );
            }
            0
        }
        _ => {
            eprintln!("usage: drv <conf|roundtrip|batch|lengths|weak|names|zeroize|hazmat|bcrypt|wblock|api|replay|threads|types> [--k v]...");
            2
        }
    }
}
