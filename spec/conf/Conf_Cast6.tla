---------------------------- MODULE Conf_Cast6 -----------------------------
EXTENDS Cast6, Json, IOUtils
VARIABLES tpos, inst
Rec == ndJsonDeserialize(IOEnv.TRACE)
OSched(t, k, x) == Cast6Sched(t, k, x)
OEnc(ks, b) == Cast6Enc(ks, b)
ODec(ks, b) == Cast6Dec(ks, b)
ExtraKinds == {}
INSTANCE ConfBase
=============================================================================
