SPECIFICATION Spec
CONSTANTS
  KeyIds = {1, 2, 3}
  ClassOf <- MCClassOf
  Blocks = {1, 2}
  Slots = {1, 2, 3}
  MaxOps = 5
  Arms = {"hw", "soft"}
  Kinds = {"both", "enc", "dec"}
VIEW view
INVARIANTS TypeOK KeysMatch ArmStable KindShape Functional Inverse CanonAgreement Erased
ACTION_CONSTRAINT EmitScenario
CHECK_DEADLOCK FALSE
