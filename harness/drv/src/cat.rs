//! Catalogue of concrete cipher types and a dynamic (`dyn Inst`) view of an instance.
//!
//! The driver only *drives and records*: nothing in here judges a result.  Every public call
//! goes through `catch` in `ev.rs`, so a panic in the code under test becomes data.

use cipher::{
    AlgorithmName, Array, BlockCipherDecBackend, BlockCipherDecClosure, BlockCipherDecrypt,
    BlockCipherEncBackend, BlockCipherEncClosure, BlockCipherEncrypt, BlockSizeUser, InOutBuf,
    KeyInit, KeySizeUser, ParBlocksSizeUser, inout::InOut, typenum::Unsigned,
};
use std::fmt::Debug;

#[derive(Clone, Copy, PartialEq, Eq, Debug)]
pub enum Shape {
    Inplace,
    B2b,
    Inout,
}
impl Shape {
    pub fn name(self) -> &'static str {
        match self {
            Shape::Inplace => "inplace",
            Shape::B2b => "b2b",
            Shape::Inout => "inout",
        }
    }
    pub const ALL: [Shape; 3] = [Shape::Inplace, Shape::B2b, Shape::Inout];
}

#[derive(Clone, Copy, PartialEq, Eq, Debug)]
pub enum Dir {
    Enc,
    Dec,
}
impl Dir {
    pub fn name(self) -> &'static str {
        match self {
            Dir::Enc => "enc",
            Dir::Dec => "dec",
        }
    }
}

pub const GUARD: usize = 32;
pub const GUARD_BYTE: u8 = 0xA5;

/// Result of one single-block call: output block and the input buffer after the call.
pub struct One {
    pub out: Vec<u8>,
    pub in_after: Vec<u8>,
}

/// Result of one multi-block call.
pub struct Many {
    pub out: Vec<u8>,
    pub in_after: Vec<u8>,
    /// number of guard-zone bytes (around input and output) that changed
    pub guard_bad: usize,
    /// `Err(NotEqualError)` reported by the b2b entry point
    pub len_err: bool,
}

// ------------------------------------------------------------------------------------------------
// generic helpers over the cipher traits

pub fn g_enc1<T: BlockCipherEncrypt>(c: &T, shape: Shape, inp: &[u8]) -> One {
    let bs = T::BlockSize::USIZE;
    assert_eq!(inp.len(), bs);
    match shape {
        Shape::Inplace => {
            let mut b = Array::<u8, T::BlockSize>::clone_from_slice(inp);
            c.encrypt_block(&mut b);
            One { out: b.to_vec(), in_after: b.to_vec() }
        }
        Shape::B2b => {
            let i = Array::<u8, T::BlockSize>::clone_from_slice(inp);
            let mut o = Array::<u8, T::BlockSize>::clone_from_slice(&vec![GUARD_BYTE; bs]);
            c.encrypt_block_b2b(&i, &mut o);
            One { out: o.to_vec(), in_after: i.to_vec() }
        }
        Shape::Inout => {
            let i = Array::<u8, T::BlockSize>::clone_from_slice(inp);
            let mut o = Array::<u8, T::BlockSize>::clone_from_slice(&vec![GUARD_BYTE; bs]);
            c.encrypt_block_inout(InOut::from((&i, &mut o)));
            One { out: o.to_vec(), in_after: i.to_vec() }
        }
    }
}

pub fn g_dec1<T: BlockCipherDecrypt>(c: &T, shape: Shape, inp: &[u8]) -> One {
    let bs = T::BlockSize::USIZE;
    assert_eq!(inp.len(), bs);
    match shape {
        Shape::Inplace => {
            let mut b = Array::<u8, T::BlockSize>::clone_from_slice(inp);
            c.decrypt_block(&mut b);
            One { out: b.to_vec(), in_after: b.to_vec() }
        }
        Shape::B2b => {
            let i = Array::<u8, T::BlockSize>::clone_from_slice(inp);
            let mut o = Array::<u8, T::BlockSize>::clone_from_slice(&vec![GUARD_BYTE; bs]);
            c.decrypt_block_b2b(&i, &mut o);
            One { out: o.to_vec(), in_after: i.to_vec() }
        }
        Shape::Inout => {
            let i = Array::<u8, T::BlockSize>::clone_from_slice(inp);
            let mut o = Array::<u8, T::BlockSize>::clone_from_slice(&vec![GUARD_BYTE; bs]);
            c.decrypt_block_inout(InOut::from((&i, &mut o)));
            One { out: o.to_vec(), in_after: i.to_vec() }
        }
    }
}

/// A buffer with guard zones on both sides and a payload at an arbitrary byte offset.
pub struct Guarded {
    pub buf: Vec<u8>,
    pub start: usize,
    pub len: usize,
}
impl Guarded {
    pub fn new(off: usize, payload: &[u8]) -> Self {
        let mut buf = vec![GUARD_BYTE; GUARD + off + payload.len() + GUARD];
        buf[GUARD + off..GUARD + off + payload.len()].copy_from_slice(payload);
        Guarded { buf, start: GUARD + off, len: payload.len() }
    }
    pub fn filled(off: usize, len: usize, fill: u8) -> Self {
        Self::new(off, &vec![fill; len])
    }
    pub fn payload(&self) -> &[u8] {
        &self.buf[self.start..self.start + self.len]
    }
    pub fn payload_mut(&mut self) -> &mut [u8] {
        &mut self.buf[self.start..self.start + self.len]
    }
    pub fn guard_bad(&self) -> usize {
        self.buf[..self.start].iter().filter(|&&b| b != GUARD_BYTE).count()
            + self.buf[self.start + self.len..].iter().filter(|&&b| b != GUARD_BYTE).count()
    }
}

/// `out_n`: number of blocks of the output buffer for the b2b shape (to provoke `NotEqualError`);
/// `None` = same as the input.
pub fn g_blocks<T, F1, F2, F3>(
    bs: usize,
    shape: Shape,
    inp: &[u8],
    off_in: usize,
    off_out: usize,
    out_n: Option<usize>,
    inplace: F1,
    b2b: F2,
    inout: F3,
) -> Many
where
    T: BlockSizeUser,
    F1: FnOnce(&mut [Array<u8, T::BlockSize>]),
    F2: FnOnce(&[Array<u8, T::BlockSize>], &mut [Array<u8, T::BlockSize>]) -> bool,
    F3: FnOnce(InOutBuf<'_, '_, Array<u8, T::BlockSize>>),
{
    assert_eq!(inp.len() % bs, 0);
    match shape {
        Shape::Inplace => {
            let mut g = Guarded::new(off_out, inp);
            {
                let (blocks, rest) = Array::<u8, T::BlockSize>::slice_as_chunks_mut(g.payload_mut());
                assert!(rest.is_empty());
                inplace(blocks);
            }
            Many {
                out: g.payload().to_vec(),
                in_after: g.payload().to_vec(),
                guard_bad: g.guard_bad(),
                len_err: false,
            }
        }
        Shape::B2b | Shape::Inout => {
            let gi = Guarded::new(off_in, inp);
            let on = out_n.map(|n| n * bs).unwrap_or(inp.len());
            let mut go = Guarded::filled(off_out, on, 0x5A);
            let mut len_err = false;
            {
                let (ib, _) = Array::<u8, T::BlockSize>::slice_as_chunks(gi.payload());
                let (ob, _) = Array::<u8, T::BlockSize>::slice_as_chunks_mut(go.payload_mut());
                if shape == Shape::B2b {
                    len_err = !b2b(ib, ob);
                } else {
                    match InOutBuf::new(ib, ob) {
                        Ok(buf) => inout(buf),
                        Err(_) => len_err = true,
                    }
                }
            }
            Many {
                out: go.payload().to_vec(),
                in_after: gi.payload().to_vec(),
                guard_bad: gi.guard_bad() + go.guard_bad(),
                len_err,
            }
        }
    }
}

pub fn g_enc_blocks<T: BlockCipherEncrypt>(
    c: &T,
    shape: Shape,
    inp: &[u8],
    off_in: usize,
    off_out: usize,
    out_n: Option<usize>,
) -> Many {
    g_blocks::<T, _, _, _>(
        T::BlockSize::USIZE,
        shape,
        inp,
        off_in,
        off_out,
        out_n,
        |b| c.encrypt_blocks(b),
        |i, o| c.encrypt_blocks_b2b(i, o).is_ok(),
        |b| c.encrypt_blocks_inout(b),
    )
}

pub fn g_dec_blocks<T: BlockCipherDecrypt>(
    c: &T,
    shape: Shape,
    inp: &[u8],
    off_in: usize,
    off_out: usize,
    out_n: Option<usize>,
) -> Many {
    g_blocks::<T, _, _, _>(
        T::BlockSize::USIZE,
        shape,
        inp,
        off_in,
        off_out,
        out_n,
        |b| c.decrypt_blocks(b),
        |i, o| c.decrypt_blocks_b2b(i, o).is_ok(),
        |b| c.decrypt_blocks_inout(b),
    )
}

// ---- closures that talk to the backend directly -------------------------------------------------

struct ParProbeE<'a, BS>(&'a mut usize, core::marker::PhantomData<BS>);
impl<BS: cipher::crypto_common::BlockSizes> BlockSizeUser for ParProbeE<'_, BS> {
    type BlockSize = BS;
}
impl<BS: cipher::crypto_common::BlockSizes> BlockCipherEncClosure for ParProbeE<'_, BS> {
    fn call<B: BlockCipherEncBackend<BlockSize = BS>>(self, _backend: &B) {
        *self.0 = <B as ParBlocksSizeUser>::ParBlocksSize::USIZE;
    }
}
struct ParProbeD<'a, BS>(&'a mut usize, core::marker::PhantomData<BS>);
impl<BS: cipher::crypto_common::BlockSizes> BlockSizeUser for ParProbeD<'_, BS> {
    type BlockSize = BS;
}
impl<BS: cipher::crypto_common::BlockSizes> BlockCipherDecClosure for ParProbeD<'_, BS> {
    fn call<B: BlockCipherDecBackend<BlockSize = BS>>(self, _backend: &B) {
        *self.0 = <B as ParBlocksSizeUser>::ParBlocksSize::USIZE;
    }
}

pub fn g_par_enc<T: BlockCipherEncrypt>(c: &T) -> usize {
    let mut p = 0usize;
    c.encrypt_with_backend(ParProbeE::<T::BlockSize>(&mut p, Default::default()));
    p
}
pub fn g_par_dec<T: BlockCipherDecrypt>(c: &T) -> usize {
    let mut p = 0usize;
    c.decrypt_with_backend(ParProbeD::<T::BlockSize>(&mut p, Default::default()));
    p
}

/// Which backend entry points the direct calls use: 0 = `*_par_blocks` + `*_tail_blocks` (out of place), 1 = their
/// `_inplace` forms, 2 = `*_block` per block, 3 = `*_block_inplace` per block.
pub static DIRECT_MODE: core::sync::atomic::AtomicUsize = core::sync::atomic::AtomicUsize::new(0);

/// Direct backend call: `*_par_blocks` on each full group of `par` blocks and `*_tail_blocks` on the
/// remaining (< par) blocks, buffer-to-buffer, bypassing the `cipher` crate's chunking loop.
struct DirectE<'a, BS> {
    inp: &'a [u8],
    out: &'a mut Vec<u8>,
    _p: core::marker::PhantomData<BS>,
}
impl<BS: cipher::crypto_common::BlockSizes> BlockSizeUser for DirectE<'_, BS> {
    type BlockSize = BS;
}
impl<BS: cipher::crypto_common::BlockSizes> BlockCipherEncClosure for DirectE<'_, BS> {
    fn call<B: BlockCipherEncBackend<BlockSize = BS>>(self, backend: &B) {
        let par = <B as ParBlocksSizeUser>::ParBlocksSize::USIZE;
        let (ib, _) = Array::<u8, BS>::slice_as_chunks(self.inp);
        let mut ob: Vec<Array<u8, BS>> = vec![Array::<u8, BS>::default(); ib.len()];
        let mode = DIRECT_MODE.load(core::sync::atomic::Ordering::Relaxed);
        match mode {
            // every block through the single-block entry point of the backend, out of place / in place
            2 => {
                for (i, o) in ib.iter().zip(ob.iter_mut()) {
                    backend.encrypt_block(InOut::from((i, o)));
                }
            }
            3 => {
                ob.clone_from_slice(ib);
                for o in ob.iter_mut() {
                    backend.encrypt_block_inplace(o);
                }
            }
            // the in-place forms of the parallel and the tail entry points
            1 => {
                ob.clone_from_slice(ib);
                let mut done = 0;
                while ib.len() - done >= par {
                    let mut pb = Array::<Array<u8, BS>, B::ParBlocksSize>::from_slice(&ob[done..done + par]).clone();
                    backend.encrypt_par_blocks_inplace(&mut pb);
                    ob[done..done + par].clone_from_slice(&pb);
                    done += par;
                }
                backend.encrypt_tail_blocks_inplace(&mut ob[done..]);
            }
            _ => {
                let mut done = 0;
                while ib.len() - done >= par {
                    let pin = Array::<Array<u8, BS>, B::ParBlocksSize>::from_slice(&ib[done..done + par]);
                    let mut pout = Array::<Array<u8, BS>, B::ParBlocksSize>::default();
                    backend.encrypt_par_blocks(InOut::from((pin, &mut pout)));
                    ob[done..done + par].clone_from_slice(&pout);
                    done += par;
                }
                let (_, tail_out) = ob.split_at_mut(done);
                if let Ok(buf) = InOutBuf::new(&ib[done..], tail_out) {
                    backend.encrypt_tail_blocks(buf);
                }
            }
        }
        for b in ob {
            self.out.extend_from_slice(&b);
        }
    }
}
struct DirectD<'a, BS> {
    inp: &'a [u8],
    out: &'a mut Vec<u8>,
    _p: core::marker::PhantomData<BS>,
}
impl<BS: cipher::crypto_common::BlockSizes> BlockSizeUser for DirectD<'_, BS> {
    type BlockSize = BS;
}
impl<BS: cipher::crypto_common::BlockSizes> BlockCipherDecClosure for DirectD<'_, BS> {
    fn call<B: BlockCipherDecBackend<BlockSize = BS>>(self, backend: &B) {
        let par = <B as ParBlocksSizeUser>::ParBlocksSize::USIZE;
        let (ib, _) = Array::<u8, BS>::slice_as_chunks(self.inp);
        let mut ob: Vec<Array<u8, BS>> = vec![Array::<u8, BS>::default(); ib.len()];
        let mode = DIRECT_MODE.load(core::sync::atomic::Ordering::Relaxed);
        match mode {
            // every block through the single-block entry point of the backend, out of place / in place
            2 => {
                for (i, o) in ib.iter().zip(ob.iter_mut()) {
                    backend.decrypt_block(InOut::from((i, o)));
                }
            }
            3 => {
                ob.clone_from_slice(ib);
                for o in ob.iter_mut() {
                    backend.decrypt_block_inplace(o);
                }
            }
            // the in-place forms of the parallel and the tail entry points
            1 => {
                ob.clone_from_slice(ib);
                let mut done = 0;
                while ib.len() - done >= par {
                    let mut pb = Array::<Array<u8, BS>, B::ParBlocksSize>::from_slice(&ob[done..done + par]).clone();
                    backend.decrypt_par_blocks_inplace(&mut pb);
                    ob[done..done + par].clone_from_slice(&pb);
                    done += par;
                }
                backend.decrypt_tail_blocks_inplace(&mut ob[done..]);
            }
            _ => {
                let mut done = 0;
                while ib.len() - done >= par {
                    let pin = Array::<Array<u8, BS>, B::ParBlocksSize>::from_slice(&ib[done..done + par]);
                    let mut pout = Array::<Array<u8, BS>, B::ParBlocksSize>::default();
                    backend.decrypt_par_blocks(InOut::from((pin, &mut pout)));
                    ob[done..done + par].clone_from_slice(&pout);
                    done += par;
                }
                let (_, tail_out) = ob.split_at_mut(done);
                if let Ok(buf) = InOutBuf::new(&ib[done..], tail_out) {
                    backend.decrypt_tail_blocks(buf);
                }
            }
        }
        for b in ob {
            self.out.extend_from_slice(&b);
        }
    }
}
pub fn g_direct_enc<T: BlockCipherEncrypt>(c: &T, inp: &[u8]) -> Vec<u8> {
    let mut out = Vec::new();
    c.encrypt_with_backend(DirectE::<T::BlockSize> { inp, out: &mut out, _p: Default::default() });
    out
}
pub fn g_direct_dec<T: BlockCipherDecrypt>(c: &T, inp: &[u8]) -> Vec<u8> {
    let mut out = Vec::new();
    c.decrypt_with_backend(DirectD::<T::BlockSize> { inp, out: &mut out, _p: Default::default() });
    out
}

// ---- autoref probes for optional traits -------------------------------------------------------------

pub struct Probe<'a, T>(pub &'a T);
pub struct TProbe<T>(pub core::marker::PhantomData<T>);

pub trait ViaClone {
    fn p_clone(&self) -> Option<Box<dyn Inst>>;
}
impl<T: Ct + Clone> ViaClone for Probe<'_, T> {
    fn p_clone(&self) -> Option<Box<dyn Inst>> {
        Some(Box::new(W(self.0.clone())))
    }
}
pub trait ViaNoClone {
    fn p_clone(&self) -> Option<Box<dyn Inst>> {
        None
    }
}
impl<T> ViaNoClone for &Probe<'_, T> {}

pub trait ViaCloneT<T> {
    fn p_clone_t(&self) -> Option<T>;
}
impl<T: Clone> ViaCloneT<T> for Probe<'_, T> {
    fn p_clone_t(&self) -> Option<T> {
        Some(self.0.clone())
    }
}
pub trait ViaNoCloneT<T> {
    fn p_clone_t(&self) -> Option<T> {
        None
    }
}
impl<T> ViaNoCloneT<T> for &Probe<'_, T> {}

/// `dst.clone_from(src)` where the type is `Clone` (a hand-written `clone_from` is a separate code path from `clone`)
pub struct ProbeMut<'a, T>(pub &'a mut T, pub &'a T);
pub trait ViaCloneFrom {
    fn p_clone_from(&mut self) -> bool;
}
impl<T: Clone> ViaCloneFrom for ProbeMut<'_, T> {
    fn p_clone_from(&mut self) -> bool {
        self.0.clone_from(self.1);
        true
    }
}
pub trait ViaNoCloneFrom {
    fn p_clone_from(&mut self) -> bool {
        false
    }
}
impl<T> ViaNoCloneFrom for &mut ProbeMut<'_, T> {}

pub trait ViaDebug {
    fn p_debug(&self) -> Option<String>;
}
/// which format spec the Debug probe uses (the caller's flags reach a hand-written impl through the Formatter)
pub static DEBUG_SPEC: core::sync::atomic::AtomicUsize = core::sync::atomic::AtomicUsize::new(0);
pub const DEBUG_SPECS: [&str; 6] = ["{:?}", "{:#?}", "{:x?}", "{:X?}", "{:12?}", "{:+08?}"];
impl<T: Debug> ViaDebug for Probe<'_, T> {
    fn p_debug(&self) -> Option<String> {
        Some(match DEBUG_SPEC.load(core::sync::atomic::Ordering::Relaxed) {
            1 => format!("{:#?}", self.0),
            2 => format!("{:x?}", self.0),
            3 => format!("{:X?}", self.0),
            4 => format!("{:12?}", self.0),
            5 => format!("{:+08?}", self.0),
            _ => format!("{:?}", self.0),
        })
    }
}
pub trait ViaNoDebug {
    fn p_debug(&self) -> Option<String> {
        None
    }
}
impl<T> ViaNoDebug for &Probe<'_, T> {}

struct AlgFmt<T>(core::marker::PhantomData<T>);
impl<T: AlgorithmName> std::fmt::Display for AlgFmt<T> {
    fn fmt(&self, f: &mut std::fmt::Formatter<'_>) -> std::fmt::Result {
        T::write_alg_name(f)
    }
}
pub trait ViaAlg {
    fn p_alg(&self) -> Option<String>;
}
impl<T: AlgorithmName> ViaAlg for TProbe<T> {
    fn p_alg(&self) -> Option<String> {
        Some(format!("{}", AlgFmt::<T>(Default::default())))
    }
}
pub trait ViaNoAlg {
    fn p_alg(&self) -> Option<String> {
        None
    }
}
impl<T> ViaNoAlg for &TProbe<T> {}

pub trait ViaSend {
    fn p_send(&self) -> bool;
}
impl<T: Send> ViaSend for TProbe<T> {
    fn p_send(&self) -> bool {
        true
    }
}
pub trait ViaNoSend {
    fn p_send(&self) -> bool {
        false
    }
}
impl<T> ViaNoSend for &TProbe<T> {}
pub trait ViaSync {
    fn p_sync(&self) -> bool;
}
impl<T: Sync> ViaSync for TProbe<T> {
    fn p_sync(&self) -> bool {
        true
    }
}
pub trait ViaNoSync {
    fn p_sync(&self) -> bool {
        false
    }
}
impl<T> ViaNoSync for &TProbe<T> {}

// ---- the per-type capability trait ------------------------------------------------------------------

#[derive(Clone, Copy, PartialEq, Eq, Debug)]
pub enum Kind {
    Both,
    Enc,
    Dec,
}
impl Kind {
    pub fn name(self) -> &'static str {
        match self {
            Kind::Both => "both",
            Kind::Enc => "enc",
            Kind::Dec => "dec",
        }
    }
}

pub trait Ct: Sized + 'static {
    const NAME: &'static str;
    const FAMILY: &'static str;
    const KIND: Kind;
    fn bs() -> usize;
    fn key_size() -> usize;
    fn new_slice(k: &[u8]) -> Result<Self, ()>;
    /// `KeyInit::new` on an array of exactly `key_size()` bytes
    fn new_arr(k: &[u8]) -> Self;
    /// `true` = `weak_key_test` returned `Err(WeakKeyError)`
    fn weak(k: &[u8]) -> bool;
    fn new_checked(k: &[u8]) -> Result<Self, ()>;
    fn enc1(&self, _s: Shape, _i: &[u8]) -> Option<One> {
        None
    }
    fn dec1(&self, _s: Shape, _i: &[u8]) -> Option<One> {
        None
    }
    fn encn(&self, _s: Shape, _i: &[u8], _oi: usize, _oo: usize, _on: Option<usize>) -> Option<Many> {
        None
    }
    fn decn(&self, _s: Shape, _i: &[u8], _oi: usize, _oo: usize, _on: Option<usize>) -> Option<Many> {
        None
    }
    fn par_e(&self) -> Option<usize> {
        None
    }
    fn par_d(&self) -> Option<usize> {
        None
    }
    fn direct_e(&self, _i: &[u8]) -> Option<Vec<u8>> {
        None
    }
    fn direct_d(&self, _i: &[u8]) -> Option<Vec<u8>> {
        None
    }
    fn c_clone(&self) -> Option<Box<dyn Inst>>;
    /// typed clone (None if the type is not `Clone`)
    fn clone_self(&self) -> Option<Self>;
    /// `self.clone_from(src)`; false if the type is not `Clone`
    fn c_clone_from(&mut self, src: &Self) -> bool;
    fn c_debug(&self) -> Option<String>;
    fn c_alg() -> Option<String>;
    fn c_send() -> bool;
    fn c_sync() -> bool;
    /// conversion targets (type names) reachable by `From<Self>` / `From<&Self>`
    fn conv_targets() -> &'static [&'static str] {
        &[]
    }
    fn conv_ref(&self, _to: &str) -> Option<Box<dyn Inst>> {
        None
    }
    fn conv_val(self, _to: &str) -> Option<Box<dyn Inst>> {
        None
    }
    /// build `Self` from an encrypt-only instance keyed with `k` (`From<Enc>` / `From<&Enc>`)
    fn from_enc_key(_k: &[u8], _by_ref: bool) -> Option<Self> {
        None
    }
}

/// Dynamic view of a live instance.
pub trait Inst {
    fn name(&self) -> &'static str;
    fn family(&self) -> &'static str;
    fn kind(&self) -> Kind;
    fn bs(&self) -> usize;
    fn enc1(&self, s: Shape, i: &[u8]) -> Option<One>;
    fn dec1(&self, s: Shape, i: &[u8]) -> Option<One>;
    fn encn(&self, s: Shape, i: &[u8], oi: usize, oo: usize, on: Option<usize>) -> Option<Many>;
    fn decn(&self, s: Shape, i: &[u8], oi: usize, oo: usize, on: Option<usize>) -> Option<Many>;
    fn par_e(&self) -> Option<usize>;
    fn par_d(&self) -> Option<usize>;
    fn direct_e(&self, i: &[u8]) -> Option<Vec<u8>>;
    fn direct_d(&self, i: &[u8]) -> Option<Vec<u8>>;
    fn clone_box(&self) -> Option<Box<dyn Inst>>;
    /// `self.clone_from(src)` when `src` is an instance of the same type and the type is `Clone`
    fn clone_from_inst(&mut self, src: &dyn Inst) -> bool;
    fn as_any(&self) -> &dyn std::any::Any;
    fn debug(&self) -> Option<String>;
    fn conv_targets(&self) -> &'static [&'static str];
    fn conv_ref(&self, to: &str) -> Option<Box<dyn Inst>>;
    fn conv_val(self: Box<Self>, to: &str) -> Option<Box<dyn Inst>>;
}

pub struct W<T>(pub T);
impl<T: Ct> Inst for W<T> {
    fn name(&self) -> &'static str {
        T::NAME
    }
    fn family(&self) -> &'static str {
        T::FAMILY
    }
    fn kind(&self) -> Kind {
        T::KIND
    }
    fn bs(&self) -> usize {
        T::bs()
    }
    fn enc1(&self, s: Shape, i: &[u8]) -> Option<One> {
        self.0.enc1(s, i)
    }
    fn dec1(&self, s: Shape, i: &[u8]) -> Option<One> {
        self.0.dec1(s, i)
    }
    fn encn(&self, s: Shape, i: &[u8], oi: usize, oo: usize, on: Option<usize>) -> Option<Many> {
        self.0.encn(s, i, oi, oo, on)
    }
    fn decn(&self, s: Shape, i: &[u8], oi: usize, oo: usize, on: Option<usize>) -> Option<Many> {
        self.0.decn(s, i, oi, oo, on)
    }
    fn par_e(&self) -> Option<usize> {
        self.0.par_e()
    }
    fn par_d(&self) -> Option<usize> {
        self.0.par_d()
    }
    fn direct_e(&self, i: &[u8]) -> Option<Vec<u8>> {
        self.0.direct_e(i)
    }
    fn direct_d(&self, i: &[u8]) -> Option<Vec<u8>> {
        self.0.direct_d(i)
    }
    fn clone_box(&self) -> Option<Box<dyn Inst>> {
        self.0.c_clone()
    }
    fn clone_from_inst(&mut self, src: &dyn Inst) -> bool {
        match src.as_any().downcast_ref::<W<T>>() {
            Some(s) => self.0.c_clone_from(&s.0),
            None => false,
        }
    }
    fn as_any(&self) -> &dyn std::any::Any {
        self
    }
    fn debug(&self) -> Option<String> {
        self.0.c_debug()
    }
    fn conv_targets(&self) -> &'static [&'static str] {
        T::conv_targets()
    }
    fn conv_ref(&self, to: &str) -> Option<Box<dyn Inst>> {
        self.0.conv_ref(to)
    }
    fn conv_val(self: Box<Self>, to: &str) -> Option<Box<dyn Inst>> {
        self.0.conv_val(to)
    }
}

/// Type-level operations, looked up by name at run time.
pub struct TypeOps {
    pub name: &'static str,
    pub family: &'static str,
    pub kind: Kind,
    pub bs: usize,
    pub key_size: usize,
    pub new_slice: fn(&[u8]) -> Result<Box<dyn Inst>, ()>,
    pub new_arr: fn(&[u8]) -> Box<dyn Inst>,
    pub weak: fn(&[u8]) -> bool,
    pub new_checked: fn(&[u8]) -> Result<Box<dyn Inst>, ()>,
    pub alg: fn() -> Option<String>,
    pub send: fn() -> bool,
    pub sync: fn() -> bool,
    pub conv_targets: fn() -> &'static [&'static str],
    pub size_of: usize,
    pub zeroize_probe: fn(&[u8], u8, Route) -> Option<crate::zero::DropObs>,
}

#[derive(Clone, Copy, PartialEq, Eq, Debug)]
pub enum Route {
    New,
    Clone,
    FromRef,
    FromVal,
    CloneOfFrom,
    CloneFrom,
    CloneFromOntoSoft,
    CloneFromOntoHw,
}
impl Route {
    pub fn name(self) -> &'static str {
        match self {
            Route::New => "new",
            Route::Clone => "clone",
            Route::FromRef => "from_ref",
            Route::FromVal => "from_val",
            Route::CloneOfFrom => "clone_of_from",
            Route::CloneFrom => "clone_from",
            Route::CloneFromOntoSoft => "clone_from_onto_soft",
            Route::CloneFromOntoHw => "clone_from_onto_hw",
        }
    }
    pub const ALL: [Route; 8] = [Route::New, Route::Clone, Route::FromRef, Route::FromVal, Route::CloneOfFrom, Route::CloneFrom,
        Route::CloneFromOntoSoft, Route::CloneFromOntoHw];
}

pub fn ops_of<T: Ct>() -> TypeOps {
    TypeOps {
        name: T::NAME,
        family: T::FAMILY,
        kind: T::KIND,
        bs: T::bs(),
        key_size: T::key_size(),
        new_slice: |k| T::new_slice(k).map(|c| Box::new(W(c)) as Box<dyn Inst>),
        new_arr: |k| Box::new(W(T::new_arr(k))),
        weak: |k| T::weak(k),
        new_checked: |k| T::new_checked(k).map(|c| Box::new(W(c)) as Box<dyn Inst>),
        alg: || T::c_alg(),
        send: || T::c_send(),
        sync: || T::c_sync(),
        conv_targets: || T::conv_targets(),
        size_of: core::mem::size_of::<T>(),
        zeroize_probe: |k, fill, route| crate::zero::probe::<T>(k, fill, route),
    }
}

// helper generic constructors
pub fn k_new_slice<T: KeyInit>(k: &[u8]) -> Result<T, ()> {
    T::new_from_slice(k).map_err(|_| ())
}
pub fn k_new_arr<T: KeyInit>(k: &[u8]) -> T {
    let key = Array::<u8, <T as KeySizeUser>::KeySize>::clone_from_slice(k);
    T::new(&key)
}
pub fn k_weak<T: KeyInit>(k: &[u8]) -> bool {
    let key = Array::<u8, <T as KeySizeUser>::KeySize>::clone_from_slice(k);
    T::weak_key_test(&key).is_err()
}
pub fn k_new_checked<T: KeyInit>(k: &[u8]) -> Result<T, ()> {
    let key = Array::<u8, <T as KeySizeUser>::KeySize>::clone_from_slice(k);
    T::new_checked(&key).map_err(|_| ())
}

#[macro_export]
macro_rules! ct_common {
    ($t:ty, $name:expr, $fam:expr) => {
        const NAME: &'static str = $name;
        const FAMILY: &'static str = $fam;
        fn bs() -> usize {
            <<$t as cipher::BlockSizeUser>::BlockSize as cipher::typenum::Unsigned>::USIZE
        }
        fn key_size() -> usize {
            <<$t as cipher::KeySizeUser>::KeySize as cipher::typenum::Unsigned>::USIZE
        }
        fn new_slice(k: &[u8]) -> Result<Self, ()> {
            $crate::cat::k_new_slice::<$t>(k)
        }
        fn new_arr(k: &[u8]) -> Self {
            $crate::cat::k_new_arr::<$t>(k)
        }
        fn weak(k: &[u8]) -> bool {
            $crate::cat::k_weak::<$t>(k)
        }
        fn new_checked(k: &[u8]) -> Result<Self, ()> {
            $crate::cat::k_new_checked::<$t>(k)
        }
        fn c_clone(&self) -> Option<Box<dyn $crate::cat::Inst>> {
            #[allow(unused_imports)]
            use $crate::cat::{ViaClone, ViaNoClone};
            (&$crate::cat::Probe(self)).p_clone()
        }
        fn clone_self(&self) -> Option<Self> {
            #[allow(unused_imports)]
            use $crate::cat::{ViaCloneT, ViaNoCloneT};
            (&$crate::cat::Probe(self)).p_clone_t()
        }
        fn c_clone_from(&mut self, src: &Self) -> bool {
            #[allow(unused_imports)]
            use $crate::cat::{ViaCloneFrom, ViaNoCloneFrom};
            (&mut $crate::cat::ProbeMut(self, src)).p_clone_from()
        }
        fn c_debug(&self) -> Option<String> {
            #[allow(unused_imports)]
            use $crate::cat::{ViaDebug, ViaNoDebug};
            (&$crate::cat::Probe(self)).p_debug()
        }
        fn c_alg() -> Option<String> {
            #[allow(unused_imports)]
            use $crate::cat::{ViaAlg, ViaNoAlg};
            (&$crate::cat::TProbe::<$t>(Default::default())).p_alg()
        }
        fn c_send() -> bool {
            #[allow(unused_imports)]
            use $crate::cat::{ViaNoSend, ViaSend};
            (&$crate::cat::TProbe::<$t>(Default::default())).p_send()
        }
        fn c_sync() -> bool {
            #[allow(unused_imports)]
            use $crate::cat::{ViaNoSync, ViaSync};
            (&$crate::cat::TProbe::<$t>(Default::default())).p_sync()
        }
    };
}
#[macro_export]
macro_rules! ct_enc {
    ($t:ty) => {
        fn enc1(&self, s: $crate::cat::Shape, i: &[u8]) -> Option<$crate::cat::One> {
            Some($crate::cat::g_enc1(self, s, i))
        }
        fn encn(
            &self,
            s: $crate::cat::Shape,
            i: &[u8],
            oi: usize,
            oo: usize,
            on: Option<usize>,
        ) -> Option<$crate::cat::Many> {
            Some($crate::cat::g_enc_blocks(self, s, i, oi, oo, on))
        }
        fn par_e(&self) -> Option<usize> {
            Some($crate::cat::g_par_enc(self))
        }
        fn direct_e(&self, i: &[u8]) -> Option<Vec<u8>> {
            Some($crate::cat::g_direct_enc(self, i))
        }
    };
}
#[macro_export]
macro_rules! ct_dec {
    ($t:ty) => {
        fn dec1(&self, s: $crate::cat::Shape, i: &[u8]) -> Option<$crate::cat::One> {
            Some($crate::cat::g_dec1(self, s, i))
        }
        fn decn(
            &self,
            s: $crate::cat::Shape,
            i: &[u8],
            oi: usize,
            oo: usize,
            on: Option<usize>,
        ) -> Option<$crate::cat::Many> {
            Some($crate::cat::g_dec_blocks(self, s, i, oi, oo, on))
        }
        fn par_d(&self) -> Option<usize> {
            Some($crate::cat::g_par_dec(self))
        }
        fn direct_d(&self, i: &[u8]) -> Option<Vec<u8>> {
            Some($crate::cat::g_direct_dec(self, i))
        }
    };
}
#[macro_export]
macro_rules! ct {
    ($t:ty, $name:expr, $fam:expr, both) => {
        impl $crate::cat::Ct for $t {
            const KIND: $crate::cat::Kind = $crate::cat::Kind::Both;
            $crate::ct_common!($t, $name, $fam);
            $crate::ct_enc!($t);
            $crate::ct_dec!($t);
        }
    };
    ($t:ty, $name:expr, $fam:expr, both, from $enc:ty) => {
        impl $crate::cat::Ct for $t {
            const KIND: $crate::cat::Kind = $crate::cat::Kind::Both;
            $crate::ct_common!($t, $name, $fam);
            $crate::ct_enc!($t);
            $crate::ct_dec!($t);
            fn from_enc_key(k: &[u8], by_ref: bool) -> Option<Self> {
                let e = $crate::cat::k_new_slice::<$enc>(k).ok()?;
                $crate::zero::scrub();
                Some(if by_ref { <$t>::from(&e) } else { <$t>::from(e) })
            }
        }
    };
    ($t:ty, $name:expr, $fam:expr, dec, from $enc:ty) => {
        impl $crate::cat::Ct for $t {
            const KIND: $crate::cat::Kind = $crate::cat::Kind::Dec;
            $crate::ct_common!($t, $name, $fam);
            $crate::ct_dec!($t);
            fn from_enc_key(k: &[u8], by_ref: bool) -> Option<Self> {
                let e = $crate::cat::k_new_slice::<$enc>(k).ok()?;
                $crate::zero::scrub();
                Some(if by_ref { <$t>::from(&e) } else { <$t>::from(e) })
            }
        }
    };
    ($t:ty, $name:expr, $fam:expr, enc, [$(($to:ty, $toname:expr)),*]) => {
        impl $crate::cat::Ct for $t {
            const KIND: $crate::cat::Kind = $crate::cat::Kind::Enc;
            $crate::ct_common!($t, $name, $fam);
            $crate::ct_enc!($t);
            fn conv_targets() -> &'static [&'static str] {
                &[$($toname),*]
            }
            fn conv_ref(&self, to: &str) -> Option<Box<dyn $crate::cat::Inst>> {
                $( if to == $toname {
                    return Some(Box::new($crate::cat::W(<$to>::from(self))));
                } )*
                None
            }
            fn conv_val(self, to: &str) -> Option<Box<dyn $crate::cat::Inst>> {
                $( if to == $toname {
                    return Some(Box::new($crate::cat::W(<$to>::from(self))));
                } )*
                None
            }
        }
    };
}
