//! Seeded generator (SplitMix64) and corner-class inputs (DESIGN 4.4).

#[derive(Clone)]
pub struct Rng(pub u64);
impl Rng {
    pub fn new(seed: u64) -> Self {
        Rng(seed ^ 0x9E37_79B9_7F4A_7C15)
    }
    pub fn next(&mut self) -> u64 {
        self.0 = self.0.wrapping_add(0x9E37_79B9_7F4A_7C15);
        let mut z = self.0;
        z = (z ^ (z >> 30)).wrapping_mul(0xBF58_476D_1CE4_E5B9);
        z = (z ^ (z >> 27)).wrapping_mul(0x94D0_49BB_1331_11EB);
        z ^ (z >> 31)
    }
    pub fn below(&mut self, n: usize) -> usize {
        if n == 0 { 0 } else { (self.next() % n as u64) as usize }
    }
    pub fn bytes(&mut self, n: usize) -> Vec<u8> {
        let mut v = Vec::with_capacity(n);
        while v.len() < n {
            let x = self.next().to_le_bytes();
            let take = (n - v.len()).min(8);
            v.extend_from_slice(&x[..take]);
        }
        v
    }
    pub fn fork(&mut self, tag: &str) -> Rng {
        let mut h = self.next();
        for b in tag.bytes() {
            h = (h ^ b as u64).wrapping_mul(0x100_0000_01B3);
        }
        Rng(h)
    }
}

/// Corner-class byte strings of length `n`; the class name is returned for the evidence counts.
pub fn corners(n: usize) -> Vec<(&'static str, Vec<u8>)> {
    let mut v: Vec<(&'static str, Vec<u8>)> = Vec::new();
    if n == 0 {
        v.push(("empty", vec![]));
        return v;
    }
    v.push(("zero", vec![0; n]));
    v.push(("ones", vec![0xFF; n]));
    v.push(("count", (0..n).map(|i| i as u8).collect()));
    v.push(("alt55", vec![0x55; n]));
    v.push(("altAA", vec![0xAA; n]));
    v.push(("x01", vec![0x01; n]));
    v.push(("x80", vec![0x80; n]));
    v.push(("x7f", vec![0x7F; n]));
    v.push(("xfe", vec![0xFE; n]));
    // 0x00 0xFF alternating, both phases (word extremes for 16-bit words either endianness)
    v.push(("alt00ff", (0..n).map(|i| if i % 2 == 0 { 0 } else { 0xFF }).collect()));
    v.push(("altff00", (0..n).map(|i| if i % 2 == 0 { 0xFF } else { 0 }).collect()));
    // 0001 pattern: 16-bit words equal to 1 (IDEA operand 1) in both endiannesses
    v.push(("w16one_be", (0..n).map(|i| if i % 2 == 1 { 1 } else { 0 }).collect()));
    v.push(("w16one_le", (0..n).map(|i| if i % 2 == 0 { 1 } else { 0 }).collect()));
    v
}

/// single-bit walks: bit `i` set only
pub fn bit_walk(n: usize, i: usize) -> Vec<u8> {
    let mut v = vec![0u8; n];
    if n > 0 {
        let i = i % (8 * n);
        v[i / 8] = 0x80 >> (i % 8);
    }
    v
}
/// single non-zero byte walks
pub fn byte_walk(n: usize, i: usize, val: u8) -> Vec<u8> {
    let mut v = vec![0u8; n];
    if n > 0 {
        v[i % n] = val;
    }
    v
}

/// `count` values of length `n`: all corners first (rotated by seed), then bit walks, then random.
pub fn mix(rng: &mut Rng, n: usize, count: usize) -> Vec<(String, Vec<u8>)> {
    let mut out: Vec<(String, Vec<u8>)> = Vec::new();
    let cs = corners(n);
    let rot = rng.below(cs.len());
    // about a third corners, a sixth walks, the rest random; always at least zero + one random
    let ncorner = (count / 3).max(1).min(cs.len());
    for j in 0..ncorner {
        let (c, v) = &cs[(j + rot) % cs.len()];
        out.push((c.to_string(), v.clone()));
    }
    let nwalk = count / 6;
    for _ in 0..nwalk {
        if out.len() >= count {
            break;
        }
        if rng.below(2) == 0 {
            out.push(("bitwalk".into(), bit_walk(n, rng.below(8 * n.max(1)))));
        } else {
            out.push(("bytewalk".into(), byte_walk(n, rng.below(n.max(1)), rng.next() as u8 | 1)));
        }
    }
    // the rest: half uniformly random, half structured-random (value classes that uniform data almost never hits)
    let mut k = 0;
    while out.len() < count {
        if k % 2 == 0 || n == 0 {
            out.push(("random".into(), rng.bytes(n)));
        } else {
            out.push(structured(rng, n));
        }
        k += 1;
    }
    out
}

/// Structured-random values: repeated words (equal adjacent words), runs of 0xFF / 0x00 (carries out of narrow
/// lanes, all-ones sub-words), sparse and dense patterns, word extremes in a random lane.
pub fn structured(rng: &mut Rng, n: usize) -> (String, Vec<u8>) {
    let mut v = rng.bytes(n);
    match rng.below(10) {
        8 => wordmask(rng, n),
        9 => zero_affix(rng, n),
        0 | 1 => {
            // a random w-byte word repeated
            let w = [2usize, 4, 8][rng.below(3)].min(n.max(1));
            let word = rng.bytes(w);
            for i in 0..n {
                v[i] = word[i % w];
            }
            ("repword".into(), v)
        }
        2 => {
            // random bytes with a run of 0xFF
            let len = 1 + rng.below(n.max(1));
            let start = rng.below(n - len + 1);
            for b in v.iter_mut().skip(start).take(len) {
                *b = 0xFF;
            }
            ("ffrun".into(), v)
        }
        3 => {
            let len = 1 + rng.below(n.max(1));
            let start = rng.below(n - len + 1);
            for b in v.iter_mut().skip(start).take(len) {
                *b = 0;
            }
            ("zerorun".into(), v)
        }
        4 => {
            // mostly zero
            let mut z = vec![0u8; n];
            for _ in 0..1 + rng.below(2) {
                z[rng.below(n.max(1))] = rng.next() as u8;
            }
            ("sparse".into(), z)
        }
        5 => {
            let mut z = vec![0xFFu8; n];
            for _ in 0..1 + rng.below(2) {
                z[rng.below(n.max(1))] = rng.next() as u8;
            }
            ("dense".into(), z)
        }
        6 => {
            // two equal adjacent words somewhere, rest random
            let w = [2usize, 4, 8][rng.below(3)];
            if n >= 2 * w {
                let at = rng.below(n / w - 1) * w;
                let (a, b) = v.split_at_mut(at + w);
                b[..w].copy_from_slice(&a[at..at + w]);
            }
            ("adjeq".into(), v)
        }
        _ => {
            // a word extreme (0x80.., 0x7f.., 0x00..01, 0xff..fe) in a random aligned lane, either endianness
            let w = [2usize, 4, 8][rng.below(3)];
            if n >= w {
                let at = rng.below(n / w) * w;
                let pat: Vec<u8> = match rng.below(4) {
                    0 => { let mut p = vec![0u8; w]; p[0] = 0x80; p }
                    1 => { let mut p = vec![0xFFu8; w]; p[0] = 0x7F; p }
                    2 => { let mut p = vec![0u8; w]; p[w - 1] = 1; p }
                    _ => { let mut p = vec![0xFFu8; w]; p[w - 1] = 0xFE; p }
                };
                let pat: Vec<u8> = if rng.below(2) == 0 { pat } else { pat.into_iter().rev().collect() };
                v[at..at + w].copy_from_slice(&pat);
            }
            ("wordext".into(), v)
        }
    }
}

/// Word-level sparse values: one random w-byte word W (w in 1, 2, 4, 8); every aligned w-byte slot holds W or 0.  Equal and
/// zero words at arbitrary slots are what word-wise folds (OR / XOR / compare over the words of a key) can confuse.
pub fn wordmask(rng: &mut Rng, n: usize) -> (String, Vec<u8>) {
    let w = [1usize, 2, 4, 8][rng.below(4)].min(n.max(1));
    let word = rng.bytes(w);
    let mut v = vec![0u8; n];
    let mut any = false;
    for slot in 0..n.div_ceil(w) {
        if rng.below(2) == 0 {
            any = true;
            for j in 0..w {
                if slot * w + j < n {
                    v[slot * w + j] = word[j];
                }
            }
        }
    }
    if !any && n > 0 {
        let slot = rng.below(n.div_ceil(w));
        for j in 0..w {
            if slot * w + j < n {
                v[slot * w + j] = word[j];
            }
        }
    }
    ("wordmask".into(), v)
}

/// A zero prefix followed by a non-zero tail, or a non-zero head followed by zeros; the cut is at a word boundary
/// (4, 8, 16, 32, ...) or anywhere.  For inputs that are consumed cyclically or in chunks (keys, salts).
pub fn zero_affix(rng: &mut Rng, n: usize) -> (String, Vec<u8>) {
    let mut v = rng.bytes(n);
    if n < 2 {
        return ("random".into(), v);
    }
    let cuts: Vec<usize> = [4usize, 8, 16, 24, 32, 56, 64].iter().copied().filter(|&c| c < n).collect();
    let cut = if cuts.is_empty() || rng.below(3) == 0 { 1 + rng.below(n - 1) } else { cuts[rng.below(cuts.len())] };
    if rng.below(2) == 0 {
        for b in v.iter_mut().take(cut) {
            *b = 0;
        }
        if v[cut..].iter().all(|&b| b == 0) {
            v[n - 1] = 1;
        }
        ("zero-prefix".into(), v)
    } else {
        for b in v.iter_mut().skip(cut) {
            *b = 0;
        }
        if v[..cut].iter().all(|&b| b == 0) {
            v[0] = 0x80;
        }
        ("zero-suffix".into(), v)
    }
}

/// Lane patterns for `lanes` parallel inputs: which lanes hold equal values.  A fast path keyed on "all lanes equal" (or any
/// other relation between lanes) is only exercised by inputs with such relations; independent random lanes never have them.
/// Returns the index of the distinct value each lane takes.
pub fn lane_pattern(rng: &mut Rng, lanes: usize) -> (String, Vec<usize>) {
    let k = rng.below(7);
    lane_pattern_k(rng, lanes, k)
}
/// the `k`-th pattern (mod 7), so that a loop can cover all of them
pub fn lane_pattern_k(rng: &mut Rng, lanes: usize, k: usize) -> (String, Vec<usize>) {
    match k % 7 {
        0 => ("lanes-all-equal".into(), vec![0; lanes]),
        1 => ("lanes-pairs".into(), (0..lanes).map(|j| j / 2).collect()),
        2 => ("lanes-halves".into(), (0..lanes).map(|j| j % (lanes / 2).max(1)).collect()),
        3 => {
            // all equal but one
            let odd = rng.below(lanes.max(1));
            ("lanes-one-differs".into(), (0..lanes).map(|j| if j == odd { 1 } else { 0 }).collect())
        }
        4 => ("lanes-alternate".into(), (0..lanes).map(|j| j % 2).collect()),
        5 => {
            // a random partition into at most 3 values
            ("lanes-partition".into(), (0..lanes).map(|_| rng.below(3)).collect())
        }
        _ => ("lanes-distinct".into(), (0..lanes).collect()),
    }
}

