//! Storage observation around `drop_in_place` (C16).  Records images only; TLC classifies offsets.

use crate::cat::{Ct, Route};
use std::alloc::{Layout, alloc, dealloc};

pub struct DropObs {
    pub size: usize,
    pub before: Vec<u8>,
    pub after: Vec<u8>,
}

/// Uninitialised bytes of a value (padding, the unused tail of a union arm) hold whatever the stack held
/// before.  So that such bytes are recognisable (they follow the fill pattern, like untouched heap bytes),
/// the stack below the current frame is overwritten with the fill pattern right before the constructing call.
pub static SCRUB_FILL: core::sync::atomic::AtomicU8 = core::sync::atomic::AtomicU8::new(0);
/// what the detection hook is set to for the whole run (`--force-off 1`)
pub static FORCE_OFF_RUN: core::sync::atomic::AtomicBool = core::sync::atomic::AtomicBool::new(false);
#[inline(never)]
pub fn scrub() {
    let fill = SCRUB_FILL.load(core::sync::atomic::Ordering::Relaxed);
    let mut a = [0u8; 192 * 1024];
    for b in a.iter_mut() {
        *b = fill;
    }
    std::hint::black_box(&mut a);
}

/// Everything that precedes the observed construction (source instances, instances that are overwritten) is built by
/// these non-inlined helpers and lives on the heap: the probe's own frame never holds a key-dependent temporary whose
/// bytes could reappear in the uninitialised part (padding, unused tail of a union arm) of the observed value.
#[inline(never)]
fn boxed_new<T: Ct>(key: &[u8]) -> Option<Box<T>> {
    T::new_slice(key).ok().map(Box::new)
}
#[inline(never)]
fn boxed_from_enc<T: Ct>(key: &[u8]) -> Option<Box<T>> {
    T::from_enc_key(key, true).map(Box::new)
}
/// The observed construction itself: runs on a freshly scrubbed stack and writes the value straight to `dst`.
#[inline(never)]
fn build_into<T>(dst: *mut T, f: &mut dyn FnMut() -> Option<T>) -> bool {
    match f() {
        Some(v) => {
            unsafe { core::ptr::write(dst, v) };
            true
        }
        None => false,
    }
}

pub fn probe<T: Ct>(key: &[u8], fill: u8, route: Route) -> Option<DropObs> {
    let size = core::mem::size_of::<T>();
    let layout = Layout::new::<T>();
    if size == 0 {
        return None;
    }
    SCRUB_FILL.store(fill, core::sync::atomic::Ordering::Relaxed);
    let other_key: Vec<u8> = key.iter().map(|b| b ^ 0x5A).collect();
    // sources / targets, on the heap
    let mut src: Option<Box<T>> = None;
    let mut target: Option<Box<T>> = None;
    match route {
        Route::New | Route::FromRef | Route::FromVal => {}
        Route::Clone => src = Some(boxed_new::<T>(key)?),
        Route::CloneOfFrom => src = Some(boxed_from_enc::<T>(key)?),
        Route::CloneFrom => {
            src = Some(boxed_new::<T>(key)?);
            target = Some(boxed_new::<T>(&other_key)?);
        }
        // hook builds: the overwritten instance and the source live in different union arms (the target was built while
        // detection answered the other way); afterwards the hook is put back to what the run uses
        Route::CloneFromOntoSoft | Route::CloneFromOntoHw => {
            if !crate::drivers::special::hook_present() || T::FAMILY != "AES" {
                return None;
            }
            let target_soft = route == Route::CloneFromOntoSoft;
            let restore = FORCE_OFF_RUN.load(core::sync::atomic::Ordering::Relaxed);
            crate::drivers::special::set_force_off(!target_soft);
            let a = boxed_new::<T>(key);
            crate::drivers::special::set_force_off(target_soft);
            let b = boxed_new::<T>(&other_key);
            crate::drivers::special::set_force_off(restore);
            src = Some(a?);
            target = Some(b?);
        }
    }
    unsafe {
        let p = alloc(layout);
        if p.is_null() {
            return None;
        }
        core::ptr::write_bytes(p, fill, size);
        let ok = match route {
            // clone_from: the overwritten instance is moved into the observed storage first (a plain byte copy of a
            // heap value), then overwritten in place
            Route::CloneFrom | Route::CloneFromOntoSoft | Route::CloneFromOntoHw => {
                let t = target.take().unwrap();
                core::ptr::copy_nonoverlapping(&*t as *const T as *const u8, p, size);
                // the box's memory is released without running T's destructor (the value now lives at p)
                let raw = Box::into_raw(t);
                dealloc(raw as *mut u8, layout);
                scrub();
                (*(p as *mut T)).c_clone_from(src.as_ref().unwrap())
            }
            _ => {
                scrub();
                let mut f = || -> Option<T> {
                    match route {
                        Route::New => T::new_slice(key).ok(),
                        Route::Clone | Route::CloneOfFrom => T::clone_self(src.as_ref().unwrap()),
                        // from_enc_key scrubs between building the Enc instance and converting it
                        Route::FromRef => T::from_enc_key(key, true),
                        Route::FromVal => T::from_enc_key(key, false),
                        _ => None,
                    }
                };
                build_into(p as *mut T, &mut f)
            }
        };
        if !ok {
            // nothing (or, for a refused clone_from, an untouched target) lives at p: release without observing
            if matches!(route, Route::CloneFrom | Route::CloneFromOntoSoft | Route::CloneFromOntoHw) {
                core::ptr::drop_in_place(p as *mut T);
            }
            dealloc(p, layout);
            return None;
        }
        let before = core::slice::from_raw_parts(p, size).to_vec();
        core::ptr::drop_in_place(p as *mut T);
        let after = core::slice::from_raw_parts(p, size).to_vec();
        dealloc(p, layout);
        Some(DropObs { size, before, after })
    }
}
