----------------------------- MODULE Conf_ARIA ------------------------------
EXTENDS ARIA, Json, IOUtils
VARIABLES tpos, inst
Rec == ndJsonDeserialize(IOEnv.TRACE)
OSched(t, k, x) == ARIASched(t, k, x)
OEnc(ks, b) == ARIAEnc(ks, b)
ODec(ks, b) == ARIADec(ks, b)
ExtraKinds == {}
INSTANCE ConfBase
=============================================================================
