--------------------------- MODULE Conf_Blowfish ---------------------------
(***************************************************************************)
(* Conformance trace specification of the blowfish crate: the block-cipher *)
(* events of ConfBase plus the eksblowfish (bcrypt feature) events "bc".   *)
(* Use with Conf_Blowfish.cfg (SPECIFICATION XSpec).                       *)
(***************************************************************************)
EXTENDS Blowfish, Json, IOUtils
VARIABLES tpos, inst
Rec == ndJsonDeserialize(IOEnv.TRACE)
OSched(t, k, x) == BlowfishSched(t, k, x)
OEnc(ks, b) == BlowfishEnc(ks, b)
ODec(ks, b) == BlowfishDec(ks, b)
ExtraKinds == {"bc"}
INSTANCE ConfBase

\* The eksblowfish state of instance id is an ordinary big-endian Blowfish instance.
\*   init              inst[id] := the pi digits
\*   expand  (key)     inst[id] := ExpandKey(inst[id], no salt, key)
\*   salted  (salt,key)inst[id] := ExpandKey(inst[id], salt, key)
\*   encrypt (in,out)  out = the state's encryption of the big-endian words in
\*   same    (id,src)  known-answer traces only: the two instance states are equal
\*                     (makes theorems T1, T2 of Blowfish.tla checkable)
\* Every call must return normally (outcome "ok"); key and salt are non-empty.
BcState(ks) == [type |-> "Blowfish", ks |-> ks]
Bc ==
    /\ IsEvent("bc")
    /\ LET e == Rec[tpos] IN
       IF e.fn = "init"
       THEN /\ e.outcome = "ok"
            /\ inst' = Put(inst, e.id, BcState(InitState))
       ELSE IF e.fn = "expand"
       THEN /\ e.outcome = "ok"
            /\ e.id \in DOMAIN inst
            /\ Len(e.key) >= 1
            /\ inst' = Put(inst, e.id, BcState(TLCEval(ExpandKey(inst[e.id].ks, <<>>, e.key))))
       ELSE IF e.fn = "salted"
       THEN /\ e.outcome = "ok"
            /\ e.id \in DOMAIN inst
            /\ Len(e.key) >= 1
            /\ Len(e.salt) >= 1
            /\ inst' = Put(inst, e.id, BcState(TLCEval(ExpandKey(inst[e.id].ks, e.salt, e.key))))
       ELSE IF e.fn = "encrypt"
       THEN /\ e.outcome = "ok"
            /\ e.id \in DOMAIN inst
            /\ e.out = BlowfishEnc(inst[e.id].ks, e.in)
            /\ UNCHANGED inst
       ELSE IF e.fn = "same"
       THEN /\ e.id \in DOMAIN inst
            /\ e.src \in DOMAIN inst
            /\ inst[e.id] = inst[e.src]
            /\ UNCHANGED inst
       ELSE FALSE

XNext == Next \/ Bc
XSpec == Init /\ [][XNext]_vars
=============================================================================
