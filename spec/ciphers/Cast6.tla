------------------------------- MODULE Cast6 -------------------------------
(***************************************************************************)
(* CAST-256 (CAST6), written from RFC 2612.                                *)
(*                                                                         *)
(* RFC 2612 section 2.1: the S-boxes S1..S4 and the round functions f1,    *)
(* f2, f3 are those of CAST-128 (RFC 2144), so they are taken from module  *)
(* Cast5 (S1..S4, F1..F3, 32-bit word helpers; a word is <<lo16, hi16>>).  *)
(* (/repo/cast6/src/consts.rs S1..S4 were checked by script to be equal to *)
(* the tables pinned in Cast5.tla.)                                        *)
(*                                                                         *)
(* The masking/rotation key material Tm/Tr is computed from the RFC's      *)
(* recurrences (Cm = 2^30*sqrt(2) = 5A827999, Mm = 2^30*sqrt(3) = 6ED9EBA1,*)
(* Cr = 19, Mr = 17), not transcribed.                                     *)
(*                                                                         *)
(* KATs (spec/kat/Cast6.ndjson): RFC 2612 Appendix A (128-, 192-, 256-bit  *)
(* keys, zero plaintext; /repo/cast6/tests/mod.rs holds the same three     *)
(* vectors and nothing else), each as enc and dec.  No published vectors   *)
(* exist for 160/224-bit keys; those lengths are pinned by the RFC 2612    *)
(* section 2.4 padding rule applied to the published vectors (the 128-bit  *)
(* key with 1..4 explicit zero words appended, the 192-bit key with 1..2,  *)
(* must give the published ciphertexts).                                   *)
(***************************************************************************)
EXTENDS Cast5

\* ----------------------------------------- quad-rounds (RFC 2612 section 2.2)
\* km, kr: the four masking words Km0..Km3 / rotations Kr0..Kr3 of one quad-round (1-based tuple)
\* "BETA <- Qi(BETA)":
\*     C = C ^ f1(D, Kr0(i), Km0(i))
\*     B = B ^ f2(C, Kr1(i), Km1(i))
\*     A = A ^ f3(B, Kr2(i), Km2(i))
\*     D = D ^ f1(A, Kr3(i), Km3(i))
Q(beta, km, kr) ==
    LET A0 == beta[1]  B0 == beta[2]  C0 == beta[3]  D0 == beta[4]
        C1 == Xor32(C0, F1(D0, km[1], kr[1]))
        B1 == Xor32(B0, F2(C1, km[2], kr[2]))
        A1 == Xor32(A0, F3(B1, km[3], kr[3]))
        D1 == Xor32(D0, F1(A1, km[4], kr[4]))
    IN TLCEval(<<A1, B1, C1, D1>>)
\* "BETA <- QBARi(BETA)":
\*     D = D ^ f1(A, Kr3(i), Km3(i))
\*     A = A ^ f3(B, Kr2(i), Km2(i))
\*     B = B ^ f2(C, Kr1(i), Km1(i))
\*     C = C ^ f1(D, Kr0(i), Km0(i))
QBar(beta, km, kr) ==
    LET A0 == beta[1]  B0 == beta[2]  C0 == beta[3]  D0 == beta[4]
        D1 == Xor32(D0, F1(A0, km[4], kr[4]))
        A1 == Xor32(A0, F3(B0, km[3], kr[3]))
        B1 == Xor32(B0, F2(C0, km[2], kr[2]))
        C1 == Xor32(C0, F1(D1, km[1], kr[1]))
    IN TLCEval(<<A1, B1, C1, D1>>)

\* -------------------------------------------- key schedule (RFC 2612 section 2.4)
Cm0 == W32(\h5a82, \h7999)    \* Cm = 0x5A827999
Mm  == W32(\h6ed9, \heba1)    \* Mm = 0x6ED9EBA1
Cr0 == 19
Mr  == 17
\*  for (i=0; i<24; i++) for (j=0; j<8; j++) {
\*      Tmj(i) = Cm;  Cm = (Cm + Mm) mod 2**32;  Trj(i) = Cr;  Cr = (Cr + Mr) mod 32 }
\* Tm[8*i + j + 1] = Tmj(i),  Tr[8*i + j + 1] = Trj(i)
RECURSIVE TmFrom(_, _, _)
TmFrom(cm, n, acc) == IF n = 0 THEN acc ELSE TmFrom(Add32(cm, Mm), n - 1, Append(acc, cm))
Tm == TLCEval(TmFrom(Cm0, 192, <<>>))
RECURSIVE TrFrom(_, _, _)
TrFrom(cr, n, acc) == IF n = 0 THEN acc ELSE TrFrom((cr + Mr) % 32, n - 1, Append(acc, cr))
Tr == TLCEval(TrFrom(Cr0, 192, <<>>))

\* "KAPPA <- Wi(KAPPA)" (forward octave):
\*     G = G ^ f1(H, Tr0(i), Tm0(i))
\*     F = F ^ f2(G, Tr1(i), Tm1(i))
\*     E = E ^ f3(F, Tr2(i), Tm2(i))
\*     D = D ^ f1(E, Tr3(i), Tm3(i))
\*     C = C ^ f2(D, Tr4(i), Tm4(i))
\*     B = B ^ f3(C, Tr5(i), Tm5(i))
\*     A = A ^ f1(B, Tr6(i), Tm6(i))
\*     H = H ^ f2(A, Tr7(i), Tm7(i))
W(i, kappa) ==
    LET tm(j) == Tm[8 * i + j + 1]
        tr(j) == Tr[8 * i + j + 1]
        A0 == kappa[1]  B0 == kappa[2]  C0 == kappa[3]  D0 == kappa[4]
        E0 == kappa[5]  F0 == kappa[6]  G0 == kappa[7]  H0 == kappa[8]
        G1 == Xor32(G0, F1(H0, tm(0), tr(0)))
        Ff1 == Xor32(F0, F2(G1, tm(1), tr(1)))
        E1 == Xor32(E0, F3(Ff1, tm(2), tr(2)))
        D1 == Xor32(D0, F1(E1, tm(3), tr(3)))
        C1 == Xor32(C0, F2(D1, tm(4), tr(4)))
        B1 == Xor32(B0, F3(C1, tm(5), tr(5)))
        A1 == Xor32(A0, F1(B1, tm(6), tr(6)))
        H1 == Xor32(H0, F2(A1, tm(7), tr(7)))
    IN TLCEval(<<A1, B1, C1, D1, E1, Ff1, G1, H1>>)

\* "Kr(i) <- KAPPA":  Kr0 = 5LSB(A), Kr1 = 5LSB(C), Kr2 = 5LSB(E), Kr3 = 5LSB(G)
KrOf(kappa) == <<kappa[1][1] % 32, kappa[3][1] % 32, kappa[5][1] % 32, kappa[7][1] % 32>>
\* "Km(i) <- KAPPA":  Km0 = H, Km1 = F, Km2 = D, Km3 = B
KmOf(kappa) == <<kappa[8], kappa[6], kappa[4], kappa[2]>>

\*  for (i=0; i<12; i++) { KAPPA <- W2i(KAPPA); KAPPA <- W2i+1(KAPPA); Kr(i) <- KAPPA; Km(i) <- KAPPA }
\* result: sequence of 12 records [km, kr], entry i+1 for quad-round i
RECURSIVE SchedFrom(_, _, _)
SchedFrom(i, kappa, acc) ==
    IF i = 12 THEN acc
    ELSE LET k2 == W(2 * i + 1, W(2 * i, kappa))
         IN SchedFrom(i + 1, k2, Append(acc, [km |-> KmOf(k2), kr |-> KrOf(k2)]))

\* KAPPA = ABCDEFGH = 256 bits of primary key; shorter keys (128, 160, 192, 224 bits) are
\* padded with zero words in the rightmost positions (RFC 2612 section 2.4, last paragraph)
Cast6Schedule(key) ==
    LET n == Len(key)
        pk == [i \in 1..32 |-> IF i <= n THEN key[i] ELSE 0]
        kappa == TLCEval([w \in 1..8 |-> WordBE(pk, 4 * w - 3)])
    IN TLCEval(SchedFrom(0, kappa, <<>>))

\* ------------------------------------------------ the cipher (RFC 2612 section 2.3)
BlockWords(in) == TLCEval(<<WordBE(in, 1), WordBE(in, 5), WordBE(in, 9), WordBE(in, 13)>>)
WordsBlock(beta) == BytesBE(beta[1]) \o BytesBE(beta[2]) \o BytesBE(beta[3]) \o BytesBE(beta[4])

\*  for (i=0; i<6; i++) BETA <- Qi(BETA);   for (i=6; i<12; i++) BETA <- QBARi(BETA)
\* kidx(i) is the (0-based) subkey set used at step i: i for encryption, 11 - i for decryption
\* ("decryption is identical to encryption except that the sets of quad-round keys are
\*   used in reverse order")
RECURSIVE Steps(_, _, _, _)
Steps(ks, dec, i, beta) ==
    IF i = 12 THEN beta
    ELSE LET k == ks[(IF dec THEN 11 - i ELSE i) + 1]
         IN Steps(ks, dec, i + 1, IF i < 6 THEN Q(beta, k.km, k.kr) ELSE QBar(beta, k.km, k.kr))

\* ------------------------------------------------- conformance interface
Cast6Sched(type, key, x) == Cast6Schedule(key)
Cast6Enc(ks, in) == WordsBlock(Steps(ks, FALSE, 0, BlockWords(in)))
Cast6Dec(ks, in) == WordsBlock(Steps(ks, TRUE, 0, BlockWords(in)))
=============================================================================
