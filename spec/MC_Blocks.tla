------------------------------ MODULE MC_Blocks ------------------------------
(***************************************************************************)
(* The multi-block call of the `cipher` crate (BlocksCtx::call): the       *)
(* buffer is cut into n div par chunks handed to *_par_blocks and a tail   *)
(* of n mod par < par blocks handed to *_tail_blocks; with par = 1 every   *)
(* block goes through the single-block routine.  Shapes: in place (input   *)
(* and output are the same buffer) or buffer-to-buffer.  TLC exhausts all  *)
(* n <= 2*par+1 for par in {1,2,3} and all lane contents over two values.  *)
(***************************************************************************)
EXTENDS Naturals, Sequences, FiniteSets, TLC

CONSTANTS Pars, Vals
VARIABLES pc, par, n, inplace, orig, inb, outb, pos, calls

vars == <<pc, par, n, inplace, orig, inb, outb, pos, calls>>
F(v) == v + 100                 \* the single-block function (abstract, injective)
Untouched == 0                  \* initial content of a separate output buffer

Init ==
    /\ pc = "idle" /\ par \in Pars /\ n = 0 /\ inplace \in BOOLEAN
    /\ orig = <<>> /\ inb = <<>> /\ outb = <<>> /\ pos = 1 /\ calls = <<>>

Begin ==
    /\ pc = "idle"
    /\ \E m \in 0..(2 * par + 1) : \E data \in [1..m -> Vals] :
         /\ n' = m /\ orig' = data /\ inb' = data
         /\ outb' = IF inplace THEN data ELSE [j \in 1..m |-> Untouched]
    /\ pos' = 1 /\ calls' = <<>>
    /\ pc' = IF par > 1 THEN "chunks" ELSE "singles"
    /\ UNCHANGED <<par, inplace>>

\* the routine reads lane j from the input view and writes lane j of the output view
Process(lo, hi) ==
    LET src == IF inplace THEN outb ELSE inb IN
    /\ outb' = [j \in 1..n |-> IF j >= lo /\ j <= hi THEN F(src[j]) ELSE outb[j]]
    /\ inb' = IF inplace THEN outb' ELSE inb

ParChunk ==
    /\ pc = "chunks" /\ pos + par - 1 <= n
    /\ Process(pos, pos + par - 1)
    /\ pos' = pos + par /\ calls' = Append(calls, <<"par", par>>)
    /\ UNCHANGED <<pc, par, n, inplace, orig>>
TailStep ==
    /\ pc = "chunks" /\ pos + par - 1 > n
    /\ Process(pos, n)
    /\ calls' = Append(calls, <<"tail", n - pos + 1>>)
    /\ pos' = n + 1 /\ pc' = "done"
    /\ UNCHANGED <<par, n, inplace, orig>>
Single ==
    /\ pc = "singles" /\ pos <= n
    /\ Process(pos, pos)
    /\ pos' = pos + 1 /\ calls' = Append(calls, <<"block", 1>>)
    /\ UNCHANGED <<pc, par, n, inplace, orig>>
SinglesDone ==
    /\ pc = "singles" /\ pos > n /\ pc' = "done"
    /\ UNCHANGED <<par, n, inplace, orig, inb, outb, pos, calls>>

Next == Begin \/ ParChunk \/ TailStep \/ Single \/ SinglesDone
Spec == Init /\ [][Next]_vars

\* ---------------------------------------------------------------- properties
\* C04: the call is the single-block function mapped over the lanes; a separate input is left unchanged
BatchIsMap == pc = "done" =>
    /\ \A j \in 1..n : outb[j] = F(orig[j])
    /\ ~inplace => inb = orig
\* lanes not yet reached are untouched; lanes done are final (output block i depends on input block i only)
Progress == pc \in {"chunks", "singles"} =>
    \A j \in 1..n : IF j < pos THEN outb[j] = F(orig[j])
                    ELSE outb[j] = (IF inplace THEN orig[j] ELSE Untouched)
\* the tail routine is only ever given fewer than par blocks (its assertion), par routine exactly par
TailBound == \A i \in 1..Len(calls) :
    /\ calls[i][1] = "tail" => calls[i][2] < par
    /\ calls[i][1] = "par" => calls[i][2] = par
CallShape == pc = "done" /\ par > 1 =>
    /\ Len(calls) = (n \div par) + 1
    /\ calls[Len(calls)] = <<"tail", n % par>>
=============================================================================
