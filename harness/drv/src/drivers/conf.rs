//! `conf`: keys x blocks through single- and multi-block entry points, for the bit-precise
//! conformance checks (C02, C05-C10) and the round-trip check (C01).

use super::*;
use crate::rng::mix;

pub fn roundtrip(cx: &mut Ctx, args: &Args, rng: &mut Rng) -> i32 {
    run(cx, args, rng)
}

fn shape_of(i: usize) -> Shape {
    Shape::ALL[i % 3]
}

/// Exercise one live instance on `blocks`.
fn exercise(cx: &mut Ctx, id: u64, inst: &dyn Inst, blocks: &[(String, Vec<u8>)], rng: &mut Rng, batch: bool) {
    let bs = inst.bs();
    for (j, (_, b)) in blocks.iter().enumerate() {
        match inst.kind() {
            Kind::Both => {
                if let Some(c) = cx.one(id, inst, Dir::Enc, shape_of(j), b) {
                    cx.one(id, inst, Dir::Dec, shape_of(j + 1), &c);
                }
                if let Some(p) = cx.one(id, inst, Dir::Dec, shape_of(j + 2), b) {
                    cx.one(id, inst, Dir::Enc, shape_of(j), &p);
                }
            }
            Kind::Enc => {
                cx.one(id, inst, Dir::Enc, shape_of(j), b);
            }
            Kind::Dec => {
                cx.one(id, inst, Dir::Dec, shape_of(j), b);
            }
        }
    }
    if batch {
        // lane contents are a prefix of one per-instance stream, so builds whose backends have different
        // parallel widths still observe common (key, block) points (cross-configuration merge, C03)
        let lane_seed = rng.next();
        for dir in [Dir::Enc, Dir::Dec] {
            let par = match dir {
                Dir::Enc => inst.par_e(),
                Dir::Dec => inst.par_d(),
            };
            if let Some(par) = par {
                let mut lr = Rng::new(lane_seed);
                let n = par + 1 + (lane_seed % 2) as usize;
                let data = lr.bytes(n * bs);
                // every lane input is also observed through the single-block entry point
                for b in data.chunks(bs) {
                    cx.one(id, inst, dir, Shape::B2b, b);
                }
                let (oi, oo) = ((lane_seed >> 8) as usize % 16, (lane_seed >> 16) as usize % 16);
                cx.many(id, inst, dir, shape_of((lane_seed >> 24) as usize), &data, oi, oo, None);
            }
        }
    }
}

/// Inputs constructed by TLC from the specification (spec/gen/Gen_*.tla: keys and blocks that steer an internal state of
/// the cipher): NDJSON lines {"type", "key", "enc": [blocks], "dec": [blocks]}.  They are exercised like any other input.
fn run_inputs(cx: &mut Ctx, path: &str, rng: &mut Rng) {
    let txt = std::fs::read_to_string(path).expect("inputs file");
    let bytes = |v: &Value| -> Vec<u8> { v.as_array().map(|a| a.iter().map(|x| x.as_u64().unwrap_or(0) as u8).collect()).unwrap_or_default() };
    let mut open: Option<String> = None;
    for line in txt.lines().filter(|l| !l.trim().is_empty()) {
        let v: Value = serde_json::from_str(line).expect("inputs json");
        let name = v["type"].as_str().unwrap_or("").to_string();
        let Some(ti) = cx.ty(&name) else { continue };
        if open.as_deref() != Some(name.as_str()) {
            if open.is_some() {
                cx.end();
            }
            cx.reset(&name);
            open = Some(name.clone());
        }
        let key = bytes(&v["key"]);
        let encs: Vec<Vec<u8>> = v["enc"].as_array().map(|a| a.iter().map(|b| bytes(b)).collect()).unwrap_or_default();
        let decs: Vec<Vec<u8>> = v["dec"].as_array().map(|a| a.iter().map(|b| bytes(b)).collect()).unwrap_or_default();
        let Some((id, inst)) = cx.construct(ti, "slice", &key, "spec-generated") else { continue };
        let kind = inst.kind();
        let mut produced: Vec<Vec<u8>> = Vec::new();
        for (j, b) in encs.iter().enumerate() {
            if kind != Kind::Dec {
                if let Some(c) = cx.one(id, inst.as_ref(), Dir::Enc, shape_of(j), b) {
                    if kind == Kind::Both {
                        cx.one(id, inst.as_ref(), Dir::Dec, shape_of(j + 1), &c);
                    }
                    produced.push(c);
                }
            }
        }
        for (j, b) in decs.iter().enumerate() {
            if kind != Kind::Enc {
                if let Some(p) = cx.one(id, inst.as_ref(), Dir::Dec, shape_of(j), b) {
                    if kind == Kind::Both {
                        cx.one(id, inst.as_ref(), Dir::Enc, shape_of(j + 2), &p);
                    }
                }
            }
        }
        // a multi-block call over the same blocks, the conversions of an encrypt-only instance, and a clone
        // (every lane of a multi-block call is also observed through the single-block entry point of that direction)
        let alle: Vec<u8> = encs.iter().flat_map(|b| b.clone()).collect();
        let alld: Vec<u8> = decs.iter().flat_map(|b| b.clone()).collect();
        if kind != Kind::Dec && !alle.is_empty() {
            cx.many(id, inst.as_ref(), Dir::Enc, Shape::B2b, &alle, 0, 0, None);
        }
        if kind != Kind::Enc && !alld.is_empty() {
            cx.many(id, inst.as_ref(), Dir::Dec, Shape::Inplace, &alld, 0, 0, None);
        }
        if kind == Kind::Enc {
            for to in inst.conv_targets() {
                if let Some((cid, c)) = cx.conv_ref(id, inst.as_ref(), to) {
                    for b in produced.iter().chain(decs.iter()) {
                        cx.one(cid, c.as_ref(), Dir::Dec, Shape::B2b, b);
                    }
                    cx.drop_inst(cid, c);
                }
            }
        }
        if let Some((cid, c)) = cx.clone_of(id, inst.as_ref()) {
            let b = encs.first().or(decs.first()).cloned().unwrap_or_else(|| rng.bytes(inst.bs()));
            exercise(cx, cid, c.as_ref(), &[("spec-generated".to_string(), b)], rng, false);
            cx.drop_inst(cid, c);
        }
        cx.drop_inst(id, inst);
    }
    if open.is_some() {
        cx.end();
    }
}

pub fn run(cx: &mut Ctx, args: &Args, rng: &mut Rng) -> i32 {
    if let Some(path) = args.get("inputs") {
        let path = path.to_string();
        run_inputs(cx, &path, rng);
        if args.get("only-inputs") == Some("1") {
            return 0;
        }
    }
    let nkeys = args.num("keys", 4) as usize;
    let nblocks = args.num("blocks", 3) as usize;
    let all_lens = args.get("lens") == Some("all");
    let batch = args.get("batch") != Some("0");
    for ti in cx.select(args) {
        let (name, bs, kind) = (cx.types[ti].name, cx.types[ti].bs, cx.types[ti].kind);
        let mut r = rng.fork(name);
        // the clone_from target is keyed with the previous key, also across key lengths
        let mut prev_key: Option<Vec<u8>> = None;
        for len in key_lens(&cx.types[ti], all_lens) {
            cx.reset(name);
            for (kc, key) in mix(&mut r, len, nkeys) {
                let mut blocks = mix(&mut r, bs, nblocks);
                if !key.is_empty() {
                    // inputs in a relation with the key: the block repeats the key bytes (or their complement)
                    let flip = if r.below(2) == 0 { 0x00 } else { 0xFF };
                    blocks.push(("keyrel".into(), (0..bs).map(|i| key[i % key.len()] ^ flip).collect()));
                }
                let Some((id, inst)) = cx.construct(ti, "slice", &key, &kc) else { continue };
                exercise(cx, id, inst.as_ref(), &blocks, &mut r, batch);
                // construction routes other than the constructors: a clone, and clone_from onto an instance keyed with
                // the previous key, must compute the same function (both directions on one block each)
                if let Some((cid, c)) = cx.clone_of(id, inst.as_ref()) {
                    exercise(cx, cid, c.as_ref(), &blocks[..1], &mut r, false);
                    cx.drop_inst(cid, c);
                }
                if let Some(pk) = prev_key.as_ref().filter(|k: &&Vec<u8>| **k != key) {
                    if let Some((oid, mut o)) = cx.construct(ti, "slice", pk, "clone-from-target") {
                        match cx.clone_from(oid, &mut o, id, inst.as_ref()) {
                            Some(nid) => {
                                exercise(cx, nid, o.as_ref(), &blocks[blocks.len() - 1..], &mut r, false);
                                cx.drop_inst(nid, o);
                            }
                            None => cx.drop_inst(oid, o),
                        }
                    }
                }
                prev_key = Some(key.clone());
                // new_checked: for a key that passes the screening, the same function as the unchecked constructors
                if key.len() == cx.types[ti].key_size {
                    if let Some((kid, k)) = cx.construct(ti, "checked", &key, &kc) {
                        exercise(cx, kid, k.as_ref(), &blocks[..1], &mut r, false);
                        cx.drop_inst(kid, k);
                    }
                }
                // Enc-only types: join with the decrypting halves through the conversions
                if kind == Kind::Enc {
                    for to in inst.conv_targets() {
                        if let Some((cid, cinst)) = cx.conv_ref(id, inst.as_ref(), to) {
                            for (_, b) in &blocks {
                                if let Some(out) = inst.enc1(Shape::Inplace, b) {
                                    // decrypt what the Enc half produced (the enc event above recorded it)
                                    cx.one(cid, cinst.as_ref(), Dir::Dec, Shape::B2b, &out.out);
                                }
                            }
                            cx.drop_inst(cid, cinst);
                        }
                    }
                }
                cx.drop_inst(id, inst);
                // constructors with extra arguments
                match name {
                    "Threefish256" | "Threefish512" | "Threefish1024" => {
                        // tweak classes: generic mix plus the structure of the tweak schedule (t0, t1, t0 ^ t1):
                        // one word zero, equal halves, a single bit
                        let mut tweaks = mix(&mut r, 16, 3);
                        let w = r.bytes(8);
                        tweaks.push(("tweak-lo-only".into(), [w.clone(), vec![0u8; 8]].concat()));
                        tweaks.push(("tweak-hi-only".into(), [vec![0u8; 8], w.clone()].concat()));
                        tweaks.push(("tweak-equal-halves".into(), [w.clone(), w.clone()].concat()));
                        tweaks.push(("tweak-bit".into(), crate::rng::bit_walk(16, r.below(128))));
                        for (tc, tweak) in tweaks {
                            for via in ["tweak", "tweak_u64"] {
                                if let Some((id, inst)) = cx.construct_extra(ti, via, &key, &tweak, &tc) {
                                    exercise(cx, id, inst.as_ref(), &blocks[..blocks.len().min(2)], &mut r, false);
                                    // u64 entry points on the same (key, tweak)
                                    for (_, b) in blocks.iter().take(2) {
                                        for dir in [Dir::Enc, Dir::Dec] {
                                            let res = catch(|| types::threefish_u64(name, &key, &tweak, dir, b));
                                            let v = match res {
                                                Ok(Some(o)) => json!({"ev":dir.name(),"id":id,"shape":"u64","in":b,"out":o,"in_after":o,"outcome":"ok"}),
                                                _ => json!({"ev":dir.name(),"id":id,"shape":"u64","in":b,"out":[],"in_after":[],"outcome":"panic"}),
                                            };
                                            cx.emit(v);
                                        }
                                    }
                                    cx.drop_inst(id, inst);
                                }
                            }
                        }
                    }
                    "Rc2" => {
                        // effective key lengths: every residue mod 8 at the small and the large end (the mask TM and the
                        // index 128 - T8 depend on T1 mod 8 and ceil(T1/8)), the classic values, 8*len, and random ones
                        let mut effs: Vec<u16> = (1..=17).collect();
                        effs.extend_from_slice(&[63, 64, 65, 127, 128, 129, 255, 256, 257, 511, 512, 513]);
                        effs.extend(1015..=1024);
                        effs.push((8 * len) as u16);
                        effs.push(1 + r.below(1024) as u16);
                        effs.push(1 + r.below(1024) as u16);
                        let take = if all_lens { 4 } else { 12 };
                        let start = r.below(effs.len());
                        for j in 0..take {
                            let eff = effs[(start + j) % effs.len()];
                            if let Some((id, inst)) = cx.construct_extra(ti, "eff", &key, &eff.to_le_bytes(), &kc) {
                                exercise(cx, id, inst.as_ref(), &blocks[..blocks.len().min(2)], &mut r, false);
                                cx.drop_inst(id, inst);
                            }
                        }
                    }
                    _ => {}
                }
            }
            cx.end();
            if name == "Idea" {
                // IDEA's decryption subkeys are the inverses mod 2^16 + 1 of 16-bit words of the key schedule: a function on a
                // 2^16 domain that a uniformly random key samples at 18 points.  Sweep a seeded contiguous slice of that domain
                // (the whole of it for sweep16 >= 65536) through key word 0 (= Z1 of round 1).
                let n = (args.num("sweep16", 0) as usize).min(65536);
                let start = r.below(65536);
                let b = r.bytes(bs);
                for j in 0..n {
                    if j % 1024 == 0 {
                        if j > 0 {
                            cx.end();
                        }
                        cx.reset(name);
                    }
                    let w = ((start + j) & 0xFFFF) as u16;
                    let mut key = vec![0u8; len];
                    key[..2].copy_from_slice(&w.to_be_bytes());
                    let Some((id, inst)) = cx.construct(ti, "slice", &key, "sweep16") else { continue };
                    if let Some(c) = cx.one(id, inst.as_ref(), Dir::Enc, Shape::Inplace, &b) {
                        cx.one(id, inst.as_ref(), Dir::Dec, Shape::B2b, &c);
                    }
                    cx.drop_inst(id, inst);
                }
                if n > 0 {
                    cx.end();
                }
            }
        }
    }
    0
}
