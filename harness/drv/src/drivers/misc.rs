use super::*;
pub fn lengths(_cx: &mut Ctx, _args: &Args, _rng: &mut Rng) -> i32 { 2 }
pub fn weak(_cx: &mut Ctx, _args: &Args, _rng: &mut Rng) -> i32 { 2 }
pub fn names(_cx: &mut Ctx, _args: &Args, _rng: &mut Rng) -> i32 { 2 }
pub fn zeroize(_cx: &mut Ctx, _args: &Args, _rng: &mut Rng) -> i32 { 2 }
