//! `lengths` (C11), `weak` (C13), `names` (C19), `zeroize` (C16).

use super::*;
use crate::rng::{bit_walk, byte_walk, corners, mix};

fn probe_blocks(rng: &mut Rng, bs: usize) -> Vec<Vec<u8>> {
    vec![(0..bs).map(|i| (i * 17 + 1) as u8).collect(), rng.bytes(bs)]
}

/// observe an instance on probe blocks (both directions where available)
fn observe(cx: &mut Ctx, id: u64, inst: &dyn Inst, probes: &[Vec<u8>]) {
    for p in probes {
        cx.one(id, inst, Dir::Enc, Shape::B2b, p);
        cx.one(id, inst, Dir::Dec, Shape::B2b, p);
    }
}

/// every type x every slice length 0..=maxlen; constructor pairs for accepted lengths
pub fn lengths(cx: &mut Ctx, args: &Args, rng: &mut Rng) -> i32 {
    let maxlen = args.num("maxlen", 300) as usize;
    for ti in cx.select(args) {
        let (name, bs, ksz) = (cx.types[ti].name, cx.types[ti].bs, cx.types[ti].key_size);
        let mut r = rng.fork(name);
        cx.reset(name);
        {
            let t = &cx.types[ti];
            let clone_ok = (t.new_slice)(&vec![0u8; *key_lens(t, false).last().unwrap()]).ok().and_then(|i| i.clone_box()).is_some();
            let v = json!({"ev":"typeinfo","type":name,"bs":t.bs,"key_size":t.key_size,"kind":t.kind.name(),"conv":(t.conv_targets)(),
                           "clone":clone_ok,"send":(t.send)(),"sync":(t.sync)(),"size_of":t.size_of});
            cx.emit(v);
        }
        for len in 0..=maxlen {
            let key = match r.below(4) {
                0 => vec![0u8; len],
                1 => vec![0xFFu8; len],
                _ => r.bytes(len),
            };
            let probes = probe_blocks(&mut r, bs);
            if let Some((id, inst)) = cx.construct(ti, "slice", &key, "len-sweep") {
                observe(cx, id, inst.as_ref(), &probes);
                // the fixed-size constructor on the same bytes
                if len == ksz {
                    if let Some((id2, i2)) = cx.construct(ti, "new", &key, "len-sweep") {
                        observe(cx, id2, i2.as_ref(), &probes);
                        cx.drop_inst(id2, i2);
                    }
                }
                // explicitly padded / re-parameterised twins (same class by Canon)
                match name {
                    "Rc2" => {
                        let eff = (8 * len) as u16;
                        if let Some((id2, i2)) = cx.construct_extra(ti, "eff", &key, &eff.to_le_bytes(), "twin") {
                            observe(cx, id2, i2.as_ref(), &probes);
                            cx.drop_inst(id2, i2);
                        }
                    }
                    "Cast5" if len > 10 && len < 16 => {
                        let mut k = key.clone();
                        k.resize(16, 0);
                        if let Some((id2, i2)) = cx.construct(ti, "slice", &k, "twin") {
                            observe(cx, id2, i2.as_ref(), &probes);
                            cx.drop_inst(id2, i2);
                        }
                    }
                    "Cast6" if len < 32 => {
                        let mut k = key.clone();
                        k.resize(32, 0);
                        if let Some((id2, i2)) = cx.construct(ti, "slice", &k, "twin") {
                            observe(cx, id2, i2.as_ref(), &probes);
                            cx.drop_inst(id2, i2);
                        }
                    }
                    "Serpent" if len < 32 => {
                        let mut k = key.clone();
                        k.push(1);
                        k.resize(32, 0);
                        if let Some((id2, i2)) = cx.construct(ti, "slice", &k, "twin") {
                            observe(cx, id2, i2.as_ref(), &probes);
                            cx.drop_inst(id2, i2);
                        }
                    }
                    _ => {}
                }
                cx.drop_inst(id, inst);
            }
        }
        // hand-written length checks (the variable-length ciphers): lengths far beyond the sweep, around the powers of two at
        // which a narrowed or scaled length would wrap onto an accepted one (len as u8 / u16, 8 * len as u16, ...)
        let accepted = key_lens(&cx.types[ti], true);
        if accepted.len() > 1 {
            let (lo, hi) = (accepted[0], *accepted.last().unwrap());
            for base in [256usize, 512, 1024, 2048, 4096, 8192, 16384, 32768, 65536] {
                for len in [base - 1, base, base + lo, base + hi, base + ksz.min(hi), base + hi + 1] {
                    let key = vec![0x42u8; len];
                    if let Some((id, inst)) = cx.construct(ti, "slice", &key, "len-huge") {
                        cx.drop_inst(id, inst);
                    }
                }
            }
        }
        cx.end();
    }
    0
}

/// `desrel` (C05): DES / Triple-DES key relations, observed through ordinary events; the specification's key class
/// (Catalogue!Class: parity bits dropped, key and complemented key share a class with complemented blocks, EDE with
/// adjacent equal parts collapses to single DES, two-key forms are three-key forms with the first part repeated)
/// puts the related instances into one learned permutation.
pub fn desrel(cx: &mut Ctx, args: &Args, rng: &mut Rng) -> i32 {
    let n = args.num("keys", 6) as usize;
    let ty = |cx: &Ctx, n: &str| cx.ty(n).unwrap();
    let (des, ede2, ede3, eee2, eee3) = (ty(cx, "Des"), ty(cx, "TdesEde2"), ty(cx, "TdesEde3"), ty(cx, "TdesEee2"), ty(cx, "TdesEee3"));
    let compl = |k: &[u8]| -> Vec<u8> { k.iter().map(|b| !b).collect() };
    let parity = |k: &[u8], m: u64| -> Vec<u8> { k.iter().enumerate().map(|(i, b)| b ^ ((m >> (i % 64)) & 1) as u8).collect() };
    for _ in 0..n {
        cx.reset("desrel");
        let k1 = rng.bytes(8);
        let k2 = rng.bytes(8);
        let k3 = rng.bytes(8);
        let probes: Vec<Vec<u8>> = vec![rng.bytes(8), rng.bytes(8), vec![0u8; 8]];
        let mut all: Vec<(u64, Box<dyn Inst>, bool)> = Vec::new(); // (id, inst, complemented?)
        let mut mk = |cx: &mut Ctx, ti: usize, key: Vec<u8>, c: bool, all: &mut Vec<(u64, Box<dyn Inst>, bool)>| {
            if let Some((id, i)) = cx.construct(ti, "slice", &key, "relation") {
                all.push((id, i, c));
            }
        };
        let cat = |a: &[u8], b: &[u8]| [a, b].concat();
        let cat3 = |a: &[u8], b: &[u8], c: &[u8]| [a, b, c].concat();
        // single DES: key, parity variant, complement, complement with other parity
        mk(cx, des, k1.clone(), false, &mut all);
        mk(cx, des, parity(&k1, rng.next()), false, &mut all);
        mk(cx, des, compl(&k1), true, &mut all);
        mk(cx, des, parity(&compl(&k1), rng.next()), true, &mut all);
        // EDE with all parts equal is single DES; with adjacent equal parts it collapses too
        mk(cx, ede3, cat3(&k1, &k1, &k1), false, &mut all);
        mk(cx, ede3, cat3(&k2, &k2, &k1), false, &mut all);
        mk(cx, ede3, cat3(&k1, &parity(&k3, rng.next()), &k3), false, &mut all);
        mk(cx, ede2, cat(&k1, &parity(&k1, rng.next())), false, &mut all);
        // two-key forms = three-key forms with the first part repeated; parity variants; complements
        mk(cx, ede2, cat(&k1, &k2), false, &mut all);
        mk(cx, ede3, cat3(&k1, &k2, &parity(&k1, rng.next())), false, &mut all);
        mk(cx, ede3, compl(&cat3(&k1, &k2, &k1)), true, &mut all);
        mk(cx, eee2, cat(&k1, &k2), false, &mut all);
        mk(cx, eee3, cat3(&parity(&k1, rng.next()), &k2, &k1), false, &mut all);
        mk(cx, eee2, compl(&cat(&k1, &k2)), true, &mut all);
        mk(cx, ede3, cat3(&k1, &k2, &k3), false, &mut all);
        mk(cx, ede3, compl(&cat3(&k1, &k2, &k3)), true, &mut all);
        mk(cx, eee3, cat3(&k1, &k2, &k3), false, &mut all);
        mk(cx, eee3, compl(&cat3(&k1, &k2, &k3)), true, &mut all);
        for (id, i, c) in &all {
            for p in &probes {
                // complemented instances are observed on the complemented probes, so the related points coincide
                let b = if *c { compl(p) } else { p.clone() };
                cx.one(*id, i.as_ref(), Dir::Enc, Shape::B2b, &b);
                cx.one(*id, i.as_ref(), Dir::Dec, Shape::B2b, &b);
            }
        }
        for (id, i, _) in all {
            cx.drop_inst(id, i);
        }
        cx.end();
    }
    0
}

const DES_WEAK: [[u8; 8]; 64] = include!("des_weak.in");

fn weak_ev(cx: &mut Ctx, ti: usize, key: &[u8], kc: &str) {
    let t = &cx.types[ti];
    let (name, f) = (t.name, t.weak);
    let r = catch(|| f(key));
    let out = match r {
        Ok(true) => "weak",
        Ok(false) => "ok",
        Err(_) => "panic",
    };
    cx.emit(json!({"ev":"weak","type":name,"key":key,"out":out,"kc":kc}));
}

/// weak-key screening: `weak_key_test` on structured + random keys; `new_checked` vs `new`
pub fn weak(cx: &mut Ctx, args: &Args, rng: &mut Rng) -> i32 {
    let nrand = args.num("random", 50) as usize;
    let parity_all = args.get("parity") == Some("all");
    for ti in cx.select(args) {
        let (name, bs, ksz) = (cx.types[ti].name, cx.types[ti].bs, cx.types[ti].key_size);
        let mut r = rng.fork(name);
        cx.reset(name);
        let mut keys: Vec<(String, Vec<u8>)> = Vec::new();
        for (c, k) in corners(ksz) {
            keys.push((c.to_string(), k));
        }
        for _ in 0..nrand {
            keys.push(("random".into(), r.bytes(ksz)));
        }
        // word-level sparse keys (equal / zero words at arbitrary slots) and zero prefixes / suffixes: what a screening
        // predicate that folds the key word-wise can get wrong
        for _ in 0..(nrand / 4).max(8) {
            keys.push(crate::rng::wordmask(&mut r, ksz));
            keys.push(crate::rng::zero_affix(&mut r, ksz));
        }
        match cx.types[ti].family {
            "AES" => {
                // the screened half on its own: word-sparse upper half, random lower half
                for _ in 0..16 {
                    let mut k = r.bytes(ksz);
                    let (_, up) = crate::rng::wordmask(&mut r, ksz / 2);
                    k[..ksz / 2].copy_from_slice(&up);
                    keys.push(("upper-wordmask".into(), k));
                }
                // every single-nonzero-byte key at every position (exhaustive over that family)
                for i in 0..ksz {
                    keys.push(("bytewalk".into(), byte_walk(ksz, i, 1 + r.below(255) as u8)));
                    keys.push(("bitwalk".into(), bit_walk(ksz, 8 * i + r.below(8))));
                }
                // zero upper half with random lower half, and near misses
                for _ in 0..8 {
                    let mut k = r.bytes(ksz);
                    for b in k.iter_mut().take(ksz / 2) {
                        *b = 0;
                    }
                    keys.push(("upper-zero".into(), k.clone()));
                    k[ksz / 2 - 1] = 1 << r.below(8);
                    keys.push(("upper-last-bit".into(), k.clone()));
                    k[ksz / 2 - 1] = 0;
                    k[r.below(ksz / 2)] = 0x80;
                    keys.push(("upper-one-bit".into(), k));
                }
            }
            "DES" => {
                let parts = ksz / 8;
                let masks: Vec<u8> = if parity_all { (0..=255).collect() } else { vec![0, 0xFF, 0x01, 0x80, r.next() as u8, r.next() as u8] };
                let flip = |k: &[u8], m: u8| -> Vec<u8> { k.iter().enumerate().map(|(i, b)| b ^ ((m >> i) & 1)).collect() };
                for (wi, w) in DES_WEAK.iter().enumerate() {
                    if name == "Des" {
                        for &m in &masks {
                            keys.push(("weak-parity".into(), flip(w, m)));
                        }
                        // the 56 single-key-bit neighbours must pass
                        let nb = if parity_all { 56 } else { 4 };
                        for j in 0..nb {
                            let bit = if parity_all { j } else { r.below(56) };
                            let mut k = w.to_vec();
                            k[bit / 7] ^= 0x80 >> (bit % 7);
                            keys.push(("weak-neighbour".into(), k));
                        }
                    } else {
                        // a weak part in each position, other parts random (and distinct)
                        let pos = wi % parts;
                        let mut k = r.bytes(ksz);
                        let m = masks[wi % masks.len()];
                        k[8 * pos..8 * pos + 8].copy_from_slice(&flip(w, m));
                        keys.push(("weak-part".into(), k));
                    }
                }
                if name != "Des" {
                    // a listed DES key at every unaligned offset (covering no whole part): the key is sound unless a part is
                    for (wi, w) in DES_WEAK.iter().enumerate() {
                        let off = 1 + (wi * 5 + r.below(7)) % (ksz - 8 - 1);
                        if off % 8 == 0 {
                            continue;
                        }
                        let mut k = r.bytes(ksz);
                        k[off..off + 8].copy_from_slice(&w[..]);
                        keys.push(("weak-unaligned".into(), k));
                    }
                    // equal parts in each pair, with and without parity differences; near misses
                    for a in 0..parts {
                        for b in (a + 1)..parts {
                            for _ in 0..4 {
                                let mut k = r.bytes(ksz);
                                let pa: Vec<u8> = k[8 * a..8 * a + 8].to_vec();
                                k[8 * b..8 * b + 8].copy_from_slice(&pa);
                                keys.push(("equal-parts".into(), k.clone()));
                                let m = r.next() as u8 | 1;
                                let pb = flip(&pa, m);
                                k[8 * b..8 * b + 8].copy_from_slice(&pb);
                                keys.push(("equal-mod-parity".into(), k.clone()));
                                let bit = r.below(56);
                                k[8 * b + bit / 7] ^= 0x80 >> (bit % 7);
                                keys.push(("near-equal".into(), k));
                            }
                        }
                    }
                }
            }
            _ => {}
        }
        let probes = probe_blocks(&mut r, bs);
        for (j, (kc, key)) in keys.iter().enumerate() {
            weak_ev(cx, ti, key, kc);
            // new_checked must fail exactly when weak_key_test does: every key goes through both routes (a type may
            // override new_checked with its own screening); the resulting instance is compared with `new` on a sample
            let a = cx.construct(ti, "checked", key, kc);
            if let Some((id, inst)) = a {
                if j % 7 == 0 || kc == "zero" {
                    observe(cx, id, inst.as_ref(), &probes);
                    if let Some((id2, i2)) = cx.construct(ti, "new", key, kc) {
                        observe(cx, id2, i2.as_ref(), &probes);
                        cx.drop_inst(id2, i2);
                    }
                }
                cx.drop_inst(id, inst);
            }
        }
        cx.end();
    }
    0
}

/// Debug and AlgorithmName text
pub fn names(cx: &mut Ctx, args: &Args, rng: &mut Rng) -> i32 {
    let nkeys = args.num("keys", 4) as usize;
    for ti in cx.select(args) {
        let (name, ksz) = (cx.types[ti].name, cx.types[ti].key_size);
        let mut r = rng.fork(name);
        cx.reset(name);
        let alg = catch(cx.types[ti].alg);
        match alg {
            Ok(Some(s)) => cx.emit(json!({"ev":"algname","type":name,"text":ev::text(&s),"text_s":s,"outcome":"ok"})),
            Ok(None) => cx.emit(json!({"ev":"algname","type":name,"text":[],"text_s":"","outcome":"absent"})),
            Err(_) => cx.emit(json!({"ev":"algname","type":name,"text":[],"text_s":"","outcome":"panic"})),
        }
        for (kc, key) in mix(&mut r, ksz, nkeys) {
            if let Some((id, inst)) = cx.construct(ti, "new", &key, &kc) {
                // every format spec: the flags of the caller's Formatter must not change what is named
                for (si, spec) in crate::cat::DEBUG_SPECS.iter().enumerate() {
                    crate::cat::DEBUG_SPEC.store(si, std::sync::atomic::Ordering::Relaxed);
                    let d = catch(|| inst.debug());
                    crate::cat::DEBUG_SPEC.store(0, std::sync::atomic::Ordering::Relaxed);
                    match d {
                        Ok(Some(s)) => cx.emit(json!({"ev":"debug","id":id,"type":name,"spec":spec,"text":ev::text(&s),"text_s":s,"outcome":"ok"})),
                        Ok(None) => cx.emit(json!({"ev":"debug","id":id,"type":name,"spec":spec,"text":[],"text_s":"","outcome":"absent"})),
                        Err(_) => cx.emit(json!({"ev":"debug","id":id,"type":name,"spec":spec,"text":[],"text_s":"","outcome":"panic"})),
                    }
                }
                cx.drop_inst(id, inst);
            }
        }
        cx.end();
    }
    0
}

/// storage images around drop_in_place
#[cfg(any(target_arch = "x86_64", target_arch = "x86"))]
fn hw_aes() -> bool {
    std::is_x86_feature_detected!("aes") && std::is_x86_feature_detected!("sse2")
}
#[cfg(not(any(target_arch = "x86_64", target_arch = "x86")))]
fn hw_aes() -> bool {
    false
}

pub fn zeroize(cx: &mut Ctx, args: &Args, rng: &mut Rng) -> i32 {
    let nkeys = args.num("keys", 4) as usize;
    let force_off = args.get("force-off") == Some("1");
    let all_lens = args.get("lens") != Some("few");
    for ti in cx.select(args) {
        let (name, size) = (cx.types[ti].name, cx.types[ti].size_of);
        let mut r = rng.fork(name);
        let f = cx.types[ti].zeroize_probe;
        // every accepted key length: what is stored (and must be erased) can depend on it
        for ksz in key_lens(&cx.types[ti], all_lens) {
            for route in Route::ALL {
                // is the route available for this type?
                let k0 = r.bytes(ksz);
                let avail = catch(|| f(&k0, 0x11, route)).ok().flatten().is_some();
                if !avail {
                    continue;
                }
                cx.reset(name);
                let mut keys: Vec<Vec<u8>> = vec![vec![0u8; ksz], vec![0xFFu8; ksz]];
                while keys.len() < nkeys.max(3) {
                    keys.push(r.bytes(ksz));
                }
                for (ki, key) in keys.iter().enumerate() {
                    for fill in [0x11u8, 0xEEu8] {
                        // twice per (key, fill): detects non-deterministic (uninitialised) bytes
                        for rep in 0..2 {
                            let o = catch(|| f(key, fill, route));
                            match o {
                                Ok(Some(o)) => cx.emit(json!({"ev":"zimg","type":name,"route":route.name(),"arm": if force_off {"soft"} else {"default"},
                                    "ki":ki,"fill":fill,"rep":rep,"size":o.size,"before":o.before,"after":o.after,"outcome":"ok"})),
                                _ => cx.emit(json!({"ev":"zimg","type":name,"route":route.name(),"arm": if force_off {"soft"} else {"default"},
                                    "ki":ki,"fill":fill,"rep":rep,"size":size,"before":[],"after":[],"outcome":"panic"})),
                            }
                        }
                    }
                }
                // which arm of the AES autodetect union is live in this run (a fact about the build and the CPU, for the spec's
                // notion of the instance's own bytes): "none" = no union in this build
                let arm = if cfg!(aes_force_soft) || cx.types[ti].family != "AES" {
                    "none"
                } else if force_off || !hw_aes() {
                    "soft"
                } else {
                    "hw"
                };
                cx.emit(json!({"ev":"zend","type":name,"route":route.name(),"nkeys":keys.len(),"klen":ksz,"arm":arm,"zeroize":cfg!(feature = "zeroize")}));
                cx.end();
            }
        }
    }
    0
}
