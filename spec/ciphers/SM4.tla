-------------------------------- MODULE SM4 --------------------------------
(***************************************************************************)
(* SM4 block cipher, GB/T 32907-2016 (= GM/T 0002-2012, ISO/IEC            *)
(* 18033-3:2010/Amd 1:2021), written from the standard.                    *)
(*                                                                         *)
(* 128-bit block and key, both read as four big-endian 32-bit words.  A    *)
(* word is a tuple of two 16-bit limbs, least significant limb first       *)
(* (Words.tla).                                                            *)
(*   round function  X_{i+4} = X_i xor T(X_{i+1} xor X_{i+2} xor X_{i+3}   *)
(*                                      xor rk_i),  i = 0..31              *)
(*   T  = L  o tau,  L(B)  = B xor B<<<2 xor B<<<10 xor B<<<18 xor B<<<24  *)
(*   T' = L' o tau,  L'(B) = B xor B<<<13 xor B<<<23                       *)
(*   output (Y0,Y1,Y2,Y3) = R(X32,X33,X34,X35) = (X35,X34,X33,X32)         *)
(*   key expansion  K_i = MK_i xor FK_i (i = 0..3),                        *)
(*                  rk_i = K_{i+4} = K_i xor T'(K_{i+1} xor K_{i+2} xor    *)
(*                                              K_{i+3} xor CK_i)          *)
(*   CK_i = (ck_{i,0}, .., ck_{i,3}), ck_{i,j} = (4i + j) * 7 mod 256      *)
(*   decryption = the same algorithm with rk_31, .., rk_0.                 *)
(* The S-box (no generating rule is given in the standard) is pinned from  *)
(* /repo/sm4/src/consts.rs in the standard's 16 x 16 layout (row = high    *)
(* nibble, column = low nibble); FK is the standard's system parameter; CK *)
(* is computed from its rule.                                              *)
(*                                                                         *)
(* Known answers (spec/kat/SM4.ndjson): GB/T 32907-2016 Appendix A         *)
(* example 1 (key = plaintext = 0123456789abcdeffedcba9876543210 ->        *)
(* 681edf34d206965e86b3e94f536e4246) and example 2 (the same encrypted     *)
(* 1 000 000 times -> 595298c7c6fd271f0402f804c33d3f66: the chain was      *)
(* computed with OpenSSL 3 libcrypto, which reproduces the published end   *)
(* value; iterations 2..8, 999 999 and 1 000 000 are pinned as single      *)
(* block vectors), corner vectors and 24 random vectors generated with     *)
(* OpenSSL 3 (sm4-ecb).                                                    *)
(***************************************************************************)
EXTENDS Naturals, Sequences, Bitwise, TLC, Words

\* S-box: Sbox(x) = SBox[x + 1]; row = high nibble of x, column = low nibble
SBox == <<
    214, 144, 233, 254, 204, 225,  61, 183,  22, 182,  20, 194,  40, 251,  44,   5,   \* 0x
     43, 103, 154, 118,  42, 190,   4, 195, 170,  68,  19,  38,  73, 134,   6, 153,   \* 1x
    156,  66,  80, 244, 145, 239, 152, 122,  51,  84,  11,  67, 237, 207, 172,  98,   \* 2x
    228, 179,  28, 169, 201,   8, 232, 149, 128, 223, 148, 250, 117, 143,  63, 166,   \* 3x
     71,   7, 167, 252, 243, 115,  23, 186, 131,  89,  60,  25, 230, 133,  79, 168,   \* 4x
    104, 107, 129, 178, 113, 100, 218, 139, 248, 235,  15,  75, 112,  86, 157,  53,   \* 5x
     30,  36,  14,  94,  99,  88, 209, 162,  37,  34, 124,  59,   1,  33, 120, 135,   \* 6x
    212,   0,  70,  87, 159, 211,  39,  82,  76,  54,   2, 231, 160, 196, 200, 158,   \* 7x
    234, 191, 138, 210,  64, 199,  56, 181, 163, 247, 242, 206, 249,  97,  21, 161,   \* 8x
    224, 174,  93, 164, 155,  52,  26,  85, 173, 147,  50,  48, 245, 140, 177, 227,   \* 9x
     29, 246, 226,  46, 130, 102, 202,  96, 192,  41,  35, 171,  13,  83,  78, 111,   \* Ax
    213, 219,  55,  69, 222, 253, 142,  47,   3, 255, 106, 114, 109, 108,  91,  81,   \* Bx
    141,  27, 175, 146, 187, 221, 188, 127,  17, 217,  92,  65,  31,  16,  90, 216,   \* Cx
     10, 193,  49, 136, 165, 205, 123, 189,  45, 116, 208,  18, 184, 229, 180, 176,   \* Dx
    137, 105, 151,  74,  12, 150, 119, 126, 101, 185, 241,   9, 197, 110, 198, 132,   \* Ex
     24, 240, 125, 236,  58, 220,  77,  32, 121, 238,  95,  62, 215, 203,  57,  72>>  \* Fx

ASSUME Len(SBox) = 256 /\ {SBox[i] : i \in 1..256} = 0..255

M == 65536

\* a big-endian 4-byte string as a word
Word(b) == BE16(b)

\* system parameter FK = (A3B1BAC6, 56AA3350, 677D9197, B27022DC)
FK == TLCEval(<<Word(<<163, 177, 186, 198>>), Word(<<86, 170, 51, 80>>),
                Word(<<103, 125, 145, 151>>), Word(<<178, 112, 34, 220>>)>>)

\* fixed parameter CK_0..CK_31 (CK[i + 1] = CK_i)
CK == TLCEval([n \in 1..32 |->
        LET i == n - 1
            ck(j) == ((4 * i + j) * 7) % 256
        IN Word(<<ck(0), ck(1), ck(2), ck(3)>>)])

\* tau: the S-box applied to each of the four bytes of a word
Tau(a) == LET sb(h) == 256 * SBox[(h \div 256) + 1] + SBox[(h % 256) + 1]
          IN <<sb(a[1]), sb(a[2])>>

Xor3(a, b, c) == <<(a[1] ^^ b[1]) ^^ c[1], (a[2] ^^ b[2]) ^^ c[2]>>
Xor4(a, b, c, d) == <<(a[1] ^^ b[1]) ^^ (c[1] ^^ d[1]), (a[2] ^^ b[2]) ^^ (c[2] ^^ d[2])>>

L(b)  == XorW(Xor3(b, RotLW(M, b, 2), RotLW(M, b, 10)), XorW(RotLW(M, b, 18), RotLW(M, b, 24)))
LP(b) == TLCEval(Xor3(b, RotLW(M, b, 13), RotLW(M, b, 23)))

T(a)  == L(TLCEval(Tau(a)))
TP(a) == LP(TLCEval(Tau(a)))

\* round function F(X0, X1, X2, X3, rk)
F(x0, x1, x2, x3, rk) == XorW(x0, T(TLCEval(Xor4(x1, x2, x3, rk))))

\* ----------------------------------------------------------- key expansion
RECURSIVE ExpandFrom(_, _, _)
\* k = <<K_i, K_{i+1}, K_{i+2}, K_{i+3}>>, acc = <<rk_0, .., rk_{i-1}>>
ExpandFrom(i, k, acc) ==
    IF i = 32 THEN acc
    ELSE LET nk == XorW(k[1], TP(TLCEval(Xor4(k[2], k[3], k[4], CK[i + 1]))))
         IN ExpandFrom(i + 1, <<k[2], k[3], k[4], nk>>, Append(acc, nk))

\* <<rk_0, .., rk_31>>
KeyExpansion(key) ==
    LET mk == [j \in 1..4 |-> Word(SubSeqB(key, 4 * j - 3, 4 * j))]
        k0 == <<XorW(mk[1], FK[1]), XorW(mk[2], FK[2]), XorW(mk[3], FK[3]), XorW(mk[4], FK[4])>>
    IN TLCEval(ExpandFrom(0, k0, <<>>))

\* -------------------------------------------------------------- the cipher
RECURSIVE RoundsFrom(_, _, _)
\* x = <<X_i, .., X_{i+3}>>; rk is indexed rk[i + 1] = round key of round i
RoundsFrom(i, x, rk) ==
    IF i = 32 THEN x
    ELSE RoundsFrom(i + 1, <<x[2], x[3], x[4], F(x[1], x[2], x[3], x[4], rk[i + 1])>>, rk)

Crypt(rk, in) ==
    LET x0 == [j \in 1..4 |-> Word(SubSeqB(in, 4 * j - 3, 4 * j))]
        x  == RoundsFrom(0, <<x0[1], x0[2], x0[3], x0[4]>>, rk)     \* <<X32, X33, X34, X35>>
    IN TLCEval(ToBE16(x[4]) \o ToBE16(x[3]) \o ToBE16(x[2]) \o ToBE16(x[1]))

\* ------------------------------------------------- conformance interface
SM4KeyLen(type) == 16
SM4Sched(type, key, extra) == KeyExpansion(key)
SM4Enc(rk, in) == Crypt(rk, in)
SM4Dec(rk, in) == Crypt(Rev(rk), in)
=============================================================================
