SPECIFICATION Spec
INVARIANTS SubInverse MixInverse ShiftInverse RoundInverse FipsC1
CHECK_DEADLOCK FALSE
