-------------------------------- MODULE Xtea --------------------------------
(***************************************************************************)
(* XTEA (Needham & Wheeler, "Tea extensions", 1997): 64-bit block,         *)
(* 128-bit key, 32 cycles = 64 Feistel rounds, delta = 0x9E3779B9.         *)
(*                                                                         *)
(*   v0 += (((v1 << 4) ^ (v1 >> 5)) + v1) ^ (sum + k[sum & 3]);            *)
(*   sum += delta;                                                         *)
(*   v1 += (((v0 << 4) ^ (v0 >> 5)) + v0) ^ (sum + k[(sum >> 11) & 3]);    *)
(*                                                                         *)
(* Byte order: the property under test fixes LITTLE-endian loading of the  *)
(* four key words and the two block words.  32-bit words are pairs of      *)
(* 16-bit limbs <<lo, hi>> (Words.tla).                                    *)
(*                                                                         *)
(* KATs (spec/kat/Xtea.ndjson): the widely published big-endian vectors    *)
(* (key 000102..0f / pt "ABCDEFGH" -> 497df3d072612cb5 and its five        *)
(* companions; the four Bouncy Castle XTEATest vectors), converted to the  *)
(* little-endian convention by byte-swapping every 32-bit word of key,     *)
(* plaintext and ciphertext; plus the asecuritysite.com vector quoted in   *)
(* /repo/xtea/tests/mod.rs (already little-endian).  All cross-checked     *)
(* with a textbook python implementation.                                  *)
(***************************************************************************)
EXTENDS Naturals, Sequences, Bitwise, TLC, Words

M == 65536
Cycles == 32
Delta == W32(40503, 31161)      \* 0x9E37 79B9

\* Sums[i] = i * delta mod 2^32, i = 0..32, stored at index i + 1
RECURSIVE SumsFrom(_, _)
SumsFrom(acc, i) ==
    IF i > Cycles THEN acc
    ELSE SumsFrom(Append(acc, AddW(M, acc[i], Delta)), i + 1)
Sums == TLCEval(SumsFrom(<<W32(0, 0)>>, 1))

\* key word selectors of cycle c: sum & 3 before, (sum >> 11) & 3 after the increment
SelA == TLCEval([c \in 1..Cycles |-> LowBits(M, Sums[c], 2)])
SelB == TLCEval([c \in 1..Cycles |-> LowBits(M, ShRW(M, Sums[c + 1], 11), 2)])

\* (((v << 4) ^ (v >> 5)) + v) ^ (sum + k[sel])   with sel in 0..3
F(k, v, sum, sel) ==
    XorW(AddW(M, XorW(ShLW(M, v, 4), ShRW(M, v, 5)), v), AddW(M, sum, k[sel + 1]))

\* one cycle, number c in 1..32; state s = <<v0, v1>>
EncCycle(k, c, s) ==
    LET s0 == Sums[c]       \* sum before the cycle
        s1 == Sums[c + 1]   \* sum after  "sum += delta"
        v0 == AddW(M, s[1], F(k, s[2], s0, SelA[c]))
        v1 == AddW(M, s[2], F(k, v0, s1, SelB[c]))
    IN TLCEval(<<v0, v1>>)

\* the inverse cycle
DecCycle(k, c, s) ==
    LET s0 == Sums[c]
        s1 == Sums[c + 1]
        v1 == SubW(M, s[2], F(k, s[1], s1, SelB[c]))
        v0 == SubW(M, s[1], F(k, v1, s0, SelA[c]))
    IN TLCEval(<<v0, v1>>)

RECURSIVE EncFrom(_, _, _)
EncFrom(k, c, s) == IF c > Cycles THEN s ELSE EncFrom(k, c + 1, EncCycle(k, c, s))
RECURSIVE DecFrom(_, _, _)
DecFrom(k, c, s) == IF c < 1 THEN s ELSE DecFrom(k, c - 1, DecCycle(k, c, s))

\* little-endian 32-bit words of a byte string, as <<lo, hi>> limb pairs
Words32LE(bs) == TLCEval([i \in 1..(Len(bs) \div 4) |-> LE16(SubSeqB(bs, 4*i - 3, 4*i))])
Bytes32LE(ws) == Flatten([i \in 1..Len(ws) |-> ToLE16(ws[i])])

\* ------------------------------------------------- conformance interface
XteaSched(type, key, x) == Words32LE(key)
XteaEnc(ks, in) == Bytes32LE(EncFrom(ks, 1, Words32LE(in)))
XteaDec(ks, in) == Bytes32LE(DecFrom(ks, Cycles, Words32LE(in)))
=============================================================================
