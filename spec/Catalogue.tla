----------------------------- MODULE Catalogue -----------------------------
(***************************************************************************)
(* The type catalogue of the workspace as the API specification sees it:   *)
(* for every concrete cipher type its kind, block length, accepted slice   *)
(* key lengths, array key length, weak-key rule and the canonical key      *)
(* class (the statement of the key-equivalence clauses of C05/C11/C12).    *)
(* Two instances with equal Class compute the same permutation; nothing    *)
(* is claimed about instances with different classes.                      *)
(***************************************************************************)
EXTENDS Naturals, Sequences, FiniteSets, Bitwise, TLC

Aes128T == {"Aes128", "Aes128Enc", "Aes128Dec"}
Aes192T == {"Aes192", "Aes192Enc", "Aes192Dec"}
Aes256T == {"Aes256", "Aes256Enc", "Aes256Dec"}
AesT == Aes128T \cup Aes192T \cup Aes256T
KuzT == {"Kuznyechik", "KuznyechikEnc", "KuznyechikDec"}
GostT == {"Magma", "Gost89Test", "Gost89CryptoProA", "Gost89CryptoProB", "Gost89CryptoProC",
          "Gost89CryptoProD", "Gost89UserIdentity", "Gost89UserPerm", "Gost89UserNonBij"}
TdesT == {"TdesEde2", "TdesEde3", "TdesEee2", "TdesEee3"}
SpeckT == {"Speck32_64", "Speck48_72", "Speck48_96", "Speck64_96", "Speck64_128", "Speck96_96",
           "Speck96_144", "Speck128_128", "Speck128_192", "Speck128_256"}
ThreefishT == {"Threefish256", "Threefish512", "Threefish1024"}
\* RC5_<w>_<r>_<b>: the instantiations the harness compiles, with their parameters
RC5Params == [RC5_8_12_4 |-> <<8, 12, 4>>, RC5_16_16_8 |-> <<16, 16, 8>>, RC5_32_12_16 |-> <<32, 12, 16>>,
              RC5_32_16_16 |-> <<32, 16, 16>>, RC5_64_24_24 |-> <<64, 24, 24>>, RC5_128_28_32 |-> <<128, 28, 32>>,
              RC5_32_0_16 |-> <<32, 0, 16>>, RC5_16_255_8 |-> <<16, 255, 8>>, RC5_32_12_0 |-> <<32, 12, 0>>,
              RC5_32_12_1 |-> <<32, 12, 1>>, RC5_32_12_255 |-> <<32, 12, 255>>, RC5_32_12_7 |-> <<32, 12, 7>>,
              RC5_64_12_13 |-> <<64, 12, 13>>, RC5_128_4_5 |-> <<128, 4, 5>>, RC5_8_1_3 |-> <<8, 1, 3>>,
              RC5_16_2_1 |-> <<16, 2, 1>>,
              RC5_8_255_255 |-> <<8, 255, 255>>, RC5_128_255_16 |-> <<128, 255, 16>>, RC5_64_0_8 |-> <<64, 0, 8>>, RC5_16_1_0 |-> <<16, 1, 0>>, RC5_128_12_255 |-> <<128, 12, 255>>, RC5_64_20_9 |-> <<64, 20, 9>>, RC5_8_0_0 |-> <<8, 0, 0>>, RC5_16_16_3 |-> <<16, 16, 3>>,
              RC5_32_100_16 |-> <<32, 100, 16>>, RC5_32_12_104 |-> <<32, 12, 104>>, RC5_64_205_32 |-> <<64, 205, 32>>, RC5_16_110_200 |-> <<16, 110, 200>>, RC5_8_127_10 |-> <<8, 127, 10>>, RC5_32_128_16 |-> <<32, 128, 16>>, RC5_64_126_99 |-> <<64, 126, 99>>, RC5_16_129_101 |-> <<16, 129, 101>>, RC5_128_209_109 |-> <<128, 209, 109>>, RC5_32_254_8 |-> <<32, 254, 8>>]
RC5T == DOMAIN RC5Params
OtherT == {"Aria128", "Aria192", "Aria256", "Camellia128", "Camellia192", "Camellia256", "Sm4", "BeltBlock",
           "Des", "Blowfish", "BlowfishLE", "Cast5", "Cast6", "Gift128", "Idea", "Rc2", "Serpent", "Twofish", "Xtea"}
TypeNames == AesT \cup KuzT \cup GostT \cup TdesT \cup SpeckT \cup ThreefishT \cup RC5T \cup OtherT

\* ------------------------------------------------------------------ kind
Kind(t) == IF t \in {"Aes128Enc", "Aes192Enc", "Aes256Enc", "KuznyechikEnc"} THEN "enc"
           ELSE IF t \in {"Aes128Dec", "Aes192Dec", "Aes256Dec", "KuznyechikDec"} THEN "dec"
           ELSE "both"
\* conversion targets of the encrypt-only types (From<Enc>, From<&Enc>)
ConvTargets(t) == CASE t = "Aes128Enc" -> {"Aes128", "Aes128Dec"}
                    [] t = "Aes192Enc" -> {"Aes192", "Aes192Dec"}
                    [] t = "Aes256Enc" -> {"Aes256", "Aes256Dec"}
                    [] t = "KuznyechikEnc" -> {"Kuznyechik", "KuznyechikDec"}
                    [] OTHER -> {}
Cloneable(t) == t # "Xtea"

\* ---------------------------------------------------------- block length
SpeckBlock == [Speck32_64 |-> 4, Speck48_72 |-> 6, Speck48_96 |-> 6, Speck64_96 |-> 8, Speck64_128 |-> 8,
               Speck96_96 |-> 12, Speck96_144 |-> 12, Speck128_128 |-> 16, Speck128_192 |-> 16, Speck128_256 |-> 16]
SpeckKey == [Speck32_64 |-> 8, Speck48_72 |-> 9, Speck48_96 |-> 12, Speck64_96 |-> 12, Speck64_128 |-> 16,
             Speck96_96 |-> 12, Speck96_144 |-> 18, Speck128_128 |-> 16, Speck128_192 |-> 24, Speck128_256 |-> 32]
BlockLen(t) ==
    CASE t \in AesT \cup KuzT \cup {"Aria128", "Aria192", "Aria256", "Camellia128", "Camellia192",
               "Camellia256", "Sm4", "BeltBlock", "Cast6", "Gift128", "Serpent", "Twofish"} -> 16
      [] t \in GostT \cup TdesT \cup {"Des", "Blowfish", "BlowfishLE", "Cast5", "Idea", "Rc2", "Xtea"} -> 8
      [] t \in SpeckT -> SpeckBlock[t]
      [] t = "Threefish256" -> 32 [] t = "Threefish512" -> 64 [] t = "Threefish1024" -> 128
      [] t \in RC5T -> 2 * (RC5Params[t][1] \div 8)

\* ------------------------------------------------- accepted key lengths
\* the lengths for which construction from a byte slice must succeed (C11)
KeyLens(t) ==
    CASE t \in Aes128T \cup {"Aria128", "Camellia128", "Sm4", "Gift128", "Idea", "Xtea", "TdesEde2", "TdesEee2"} -> {16}
      [] t \in Aes192T \cup {"Aria192", "Camellia192", "TdesEde3", "TdesEee3"} -> {24}
      [] t \in Aes256T \cup {"Aria256", "Camellia256", "BeltBlock"} \cup KuzT \cup GostT -> {32}
      [] t = "Des" -> {8}
      [] t \in {"Blowfish", "BlowfishLE"} -> 4..56
      [] t = "Cast5" -> 5..16
      [] t = "Cast6" -> {16, 20, 24, 28, 32}
      [] t = "Rc2" -> 1..128
      [] t = "Serpent" -> 16..32
      [] t = "Twofish" -> {16, 24, 32}
      [] t \in SpeckT -> {SpeckKey[t]}
      [] t = "Threefish256" -> {32} [] t = "Threefish512" -> {64} [] t = "Threefish1024" -> {128}
      [] t \in RC5T -> {RC5Params[t][3]}
\* length of the fixed-size array constructor (KeySize)
ArrayKeyLen(t) ==
    CASE t \in {"Blowfish", "BlowfishLE"} -> 56
      [] t = "Cast5" -> 16 [] t = "Cast6" -> 32 [] t = "Rc2" -> 32 [] t = "Serpent" -> 16 [] t = "Twofish" -> 32
      [] OTHER -> CHOOSE n \in KeyLens(t) : TRUE

\* --------------------------------------------------------------- helpers
PadTo(k, n, first) == [i \in 1..n |-> IF i <= Len(k) THEN k[i] ELSE IF i = Len(k) + 1 THEN first ELSE 0]
ClearParity(k) == [i \in 1..Len(k) |-> k[i] & 254]
Part(k, i) == [j \in 1..8 |-> k[8 * (i - 1) + j]]
ZeroTweak == [i \in 1..16 |-> 0]

\* lexicographic order on equal-length byte tuples
RECURSIVE LexLess(_, _, _)
LexLess(a, b, i) == IF i > Len(a) THEN FALSE
                    ELSE IF a[i] < b[i] THEN TRUE
                    ELSE IF a[i] > b[i] THEN FALSE
                    ELSE LexLess(a, b, i + 1)
\* DES complementation (FIPS 46-3 / C05): DES(~k, ~p) = ~DES(k, p).  A DES-type key and its complement share one
\* class; `Flipped` says whether blocks have to be complemented to enter the class's permutation.
ComplKey(c) == [i \in 1..Len(c) |-> 254 - c[i]]            \* complement of a parity-cleared key
DesRep(c) == IF LexLess(ComplKey(c), c, 1) THEN ComplKey(c) ELSE c
DesFamily(t) == t \in {"Des", "TdesEde2", "TdesEde3", "TdesEee2", "TdesEee3"}
Flipped(t, k) == DesFamily(t) /\ LexLess(ComplKey(ClearParity(k)), ClearParity(k), 1)
FlipBlock(b) == [i \in 1..Len(b) |-> 255 - b[i]]

\* ------------------------------------------------------- canonical class
\* EDE composition E_k3(D_k2(E_k1)): adjacent equal parts cancel
EdeClass(a, b, c) ==
    IF a = b THEN <<"Des", c>>
    ELSE IF b = c THEN <<"Des", a>>
    ELSE <<"Ede", a, b, c>>
\* (type, key bytes, extra bytes) -> class.  Equal classes => equal permutations.
Class(t, k, x) ==
    CASE t \in AesT -> <<"Aes", k>>
      [] t \in KuzT -> <<"Kuznyechik", k>>
      [] t \in GostT -> <<t, k>>
      \* DES types: parity cleared, then the representative of {key, complemented key} (all parts complement together)
      [] t = "Des" -> <<"Des", DesRep(ClearParity(k))>>
      [] t = "TdesEde3" -> LET c == DesRep(ClearParity(k)) IN EdeClass(Part(c, 1), Part(c, 2), Part(c, 3))
      [] t = "TdesEde2" -> LET c == DesRep(ClearParity(k)) IN EdeClass(Part(c, 1), Part(c, 2), Part(c, 1))
      [] t = "TdesEee3" -> LET c == DesRep(ClearParity(k)) IN <<"Eee", Part(c, 1), Part(c, 2), Part(c, 3)>>
      [] t = "TdesEee2" -> LET c == DesRep(ClearParity(k)) IN <<"Eee", Part(c, 1), Part(c, 2), Part(c, 1)>>
      [] t = "Cast5" -> IF Len(k) > 10 THEN <<"Cast5", PadTo(k, 16, 0)>> ELSE <<"Cast5-12", k>>
      [] t = "Cast6" -> <<"Cast6", PadTo(k, 32, 0)>>
      [] t = "Serpent" -> <<"Serpent", IF Len(k) < 32 THEN PadTo(k, 32, 1) ELSE k>>
      [] t = "Rc2" -> <<"Rc2", k, IF Len(x) = 2 THEN x[1] + 256 * x[2] ELSE 8 * Len(k)>>
      [] t \in ThreefishT -> <<t, k, IF Len(x) = 16 THEN x ELSE ZeroTweak>>
      [] OTHER -> <<t, k>>

\* ------------------------------------------------------------- weak keys
\* NIST SP 800-67 / FIPS 74: 4 weak, 12 semi-weak and 48 possibly weak DES keys, parity bits cleared.
\* spec/sanity/DesWeakSanity.tla checks with the L2 DES key schedule that they yield exactly
\* 1 / 2 / 4 distinct round keys.
DesWeakRaw == <<
  <<1,1,1,1,1,1,1,1>>, <<254,254,254,254,254,254,254,254>>, <<224,224,224,224,241,241,241,241>>, <<31,31,31,31,14,14,14,14>>,
  <<1,31,1,31,1,14,1,14>>, <<31,1,31,1,14,1,14,1>>, <<1,224,1,224,1,241,1,241>>, <<224,1,224,1,241,1,241,1>>,
  <<1,254,1,254,1,254,1,254>>, <<254,1,254,1,254,1,254,1>>, <<31,224,31,224,14,241,14,241>>, <<224,31,224,31,241,14,241,14>>,
  <<31,254,31,254,14,254,14,254>>, <<254,31,254,31,254,14,254,14>>, <<224,254,224,254,241,254,241,254>>, <<254,224,254,224,254,241,254,241>>,
  <<1,1,31,31,1,1,14,14>>, <<31,31,1,1,14,14,1,1>>, <<224,224,31,31,241,241,14,14>>, <<1,1,224,224,1,1,241,241>>,
  <<31,31,224,224,14,14,241,241>>, <<224,224,254,254,241,241,254,254>>, <<1,1,254,254,1,1,254,254>>, <<31,31,254,254,14,14,254,254>>,
  <<224,254,1,31,241,254,1,14>>, <<1,31,31,1,1,14,14,1>>, <<31,224,1,254,14,241,1,254>>, <<224,254,31,1,241,254,14,1>>,
  <<1,31,224,254,1,14,241,254>>, <<31,224,224,31,14,241,241,14>>, <<224,254,254,224,241,254,254,241>>, <<1,31,254,224,1,14,254,241>>,
  <<31,224,254,1,14,241,254,1>>, <<254,1,1,254,254,1,1,254>>, <<1,224,31,254,1,241,14,254>>, <<31,254,1,224,14,254,1,241>>,
  <<254,1,31,224,254,1,14,241>>, <<254,1,224,31,254,1,241,14>>, <<31,254,224,1,14,254,241,1>>, <<254,31,1,224,254,14,1,241>>,
  <<1,224,224,1,1,241,241,1>>, <<31,254,254,31,14,254,254,14>>, <<254,31,224,1,254,14,241,1>>, <<1,224,254,31,1,241,254,14>>,
  <<224,1,1,224,241,1,1,241>>, <<254,31,31,254,254,14,14,254>>, <<1,254,31,224,1,254,14,241>>, <<224,1,31,254,241,1,14,254>>,
  <<254,224,1,31,254,241,1,14>>, <<1,254,224,31,1,254,241,14>>, <<224,1,254,31,241,1,254,14>>, <<254,224,31,1,254,241,14,1>>,
  <<1,254,254,1,1,254,254,1>>, <<224,31,1,254,241,14,1,254>>, <<254,224,224,254,254,241,241,254>>, <<31,1,1,31,14,1,1,14>>,
  <<224,31,31,224,241,14,14,241>>, <<254,254,1,1,254,254,1,1>>, <<31,1,224,254,14,1,241,254>>, <<224,31,254,1,241,14,254,1>>,
  <<254,254,31,31,254,254,14,14>>, <<31,1,254,224,14,1,254,241>>, <<224,224,1,1,241,241,1,1>>, <<254,254,224,224,254,254,241,241>> >>
DesWeakSet == {ClearParity(DesWeakRaw[i]) : i \in 1..64}
DesWeak(k8) == ClearParity(k8) \in DesWeakSet

AllZero(k, a, b) == \A i \in a..b : k[i] = 0
\* TRUE iff weak_key_test must fail (C13)
Weak(t, k) ==
    CASE t \in AesT -> AllZero(k, 1, Len(k) \div 2)
      [] t = "Des" -> DesWeak(k)
      [] t \in {"TdesEde2", "TdesEee2"} ->
            LET c == ClearParity(k) IN
            DesWeak(Part(k, 1)) \/ DesWeak(Part(k, 2)) \/ Part(c, 1) = Part(c, 2)
      [] t \in {"TdesEde3", "TdesEee3"} ->
            LET c == ClearParity(k) IN
            \/ DesWeak(Part(k, 1)) \/ DesWeak(Part(k, 2)) \/ DesWeak(Part(k, 3))
            \/ Part(c, 1) = Part(c, 2) \/ Part(c, 1) = Part(c, 3) \/ Part(c, 2) = Part(c, 3)
      [] OTHER -> FALSE
=============================================================================
