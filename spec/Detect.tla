------------------------------- MODULE Detect -------------------------------
(***************************************************************************)
(* The lazy CPU-feature detection of `cpufeatures::new!` as used by the    *)
(* AES autodetect wrappers, with several threads, *without* assuming       *)
(* sequential consistency: the cache is one atomic accessed with           *)
(* Ordering::Relaxed, so it is modelled as a modification order (`mo`, a   *)
(* sequence of stored values) and a per-thread coherence frontier          *)
(* `seen[t]`: a load may return any value at a position >= seen[t]         *)
(* (stale reads of UNINIT are allowed) and advances the frontier.          *)
(*                                                                         *)
(* init_get():  v := load; if v = UNINIT { r := cpuid(); store(r) } else   *)
(* r := v; the returned InitToken is zero-sized: InitToken::get() is a     *)
(* fresh `load` that must not return UNINIT and must equal what the        *)
(* constructor saw.  An instance built on one thread can be handed to      *)
(* another (Send / &T across threads), which in safe Rust implies a        *)
(* happens-before edge: the receiver's frontier is at least the sender's.  *)
(***************************************************************************)
EXTENDS Naturals, Sequences, FiniteSets, TLC

CONSTANTS
    \* @type: Set(Int);
    Threads,
    \* @type: Int;
    MaxInst,
    \* @type: Str;
    Cpu       \* Cpu \in {"yes","no"}: what cpuid reports (fixed for the process)
UNINIT == "uninit"

VARIABLES
    \* modification order of the cache: sequence of values, mo[1] = UNINIT
    \* @type: Seq(Str);
    mo,
    \* thread -> index into mo (coherence frontier)
    \* @type: Int -> Int;
    seen,
    \* thread -> "idle" | "loaded" | "detected" | "built"
    \* @type: Int -> Str;
    pc,
    \* thread -> value loaded / detected
    \* @type: Int -> Str;
    tmp,
    \* set of [id, arm, owner]: arm chosen at construction, owner thread currently holding it
    \* @type: Set({id: Int, arm: Str, owner: Int});
    insts,
    \* @type: Int;
    nextId,
    \* observations: what the constructor saw vs what the use read
    \* @type: Set({id: Int, built: Str, read: Str});
    used

vars == <<mo, seen, pc, tmp, insts, nextId, used>>

Init ==
    /\ mo = <<UNINIT>>
    /\ seen = [t \in Threads |-> 1]
    /\ pc = [t \in Threads |-> "idle"]
    /\ tmp = [t \in Threads |-> UNINIT]
    /\ insts = {} /\ nextId = 1 /\ used = {}

\* a relaxed load: any position at or after the thread's frontier
Load(t) ==
    /\ pc[t] = "idle" /\ nextId <= MaxInst
    /\ \E p \in seen[t]..Len(mo) :
         /\ seen' = [seen EXCEPT ![t] = p]
         /\ tmp' = [tmp EXCEPT ![t] = mo[p]]
    /\ pc' = [pc EXCEPT ![t] = "loaded"]
    /\ UNCHANGED <<mo, insts, nextId, used>>

\* cache miss: run cpuid
Detect(t) ==
    /\ pc[t] = "loaded" /\ tmp[t] = UNINIT
    /\ tmp' = [tmp EXCEPT ![t] = Cpu]
    /\ pc' = [pc EXCEPT ![t] = "detected"]
    /\ UNCHANGED <<mo, seen, insts, nextId, used>>

\* ... and publish it (appends to the modification order; the storing thread has seen its own store)
Store(t) ==
    /\ pc[t] = "detected"
    /\ mo' = Append(mo, tmp[t])
    /\ seen' = [seen EXCEPT ![t] = Len(mo) + 1]
    /\ pc' = [pc EXCEPT ![t] = "built"]
    /\ UNCHANGED <<tmp, insts, nextId, used>>

\* cache hit, or after the store: construct the instance in the arm the result names
Construct(t) ==
    /\ \/ pc[t] = "loaded" /\ tmp[t] # UNINIT
       \/ pc[t] = "built"
    /\ insts' = insts \cup {[id |-> nextId, arm |-> tmp[t], owner |-> t]}
    /\ nextId' = nextId + 1
    /\ pc' = [pc EXCEPT ![t] = "idle"]
    /\ UNCHANGED <<mo, seen, tmp, used>>

\* a use: InitToken::get() is a fresh relaxed load by the owner
Use(t) ==
    /\ pc[t] = "idle"
    /\ \E i \in insts : i.owner = t /\
         \E p \in seen[t]..Len(mo) :
            /\ seen' = [seen EXCEPT ![t] = p]
            /\ used' = used \cup {[id |-> i.id, built |-> i.arm, read |-> mo[p]]}
    /\ UNCHANGED <<mo, pc, tmp, insts, nextId>>

\* hand an instance (or a reference to it) to another thread: happens-before
Send(t, u) ==
    /\ t # u /\ pc[t] = "idle"
    /\ \E i \in insts : i.owner = t /\
         /\ insts' = (insts \ {i}) \cup {[i EXCEPT !.owner = u]}
         /\ seen' = [seen EXCEPT ![u] = IF seen[t] > seen[u] THEN seen[t] ELSE seen[u]]
    /\ UNCHANGED <<mo, pc, tmp, nextId, used>>

Next == \E t \in Threads : Load(t) \/ Detect(t) \/ Store(t) \/ Construct(t) \/ Use(t) \/ (\E u \in Threads : Send(t, u))
Spec == Init /\ [][Next]_vars

\* ---------------------------------------------------------------- properties
\* every store writes the CPU's value; the cache never changes once initialised (apart from equal re-stores)
StorageMonotone == \A p \in 2..Len(mo) : mo[p] = Cpu
\* the arm read at every use is the arm written at construction, on whichever thread (C15)
ArmStable == \A u \in used : u.read = u.built
\* all instances of the process live in the same arm
OneArm == \A i, j \in insts : i.arm = j.arm
=============================================================================
