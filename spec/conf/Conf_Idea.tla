------------------------------ MODULE Conf_Idea ------------------------------
EXTENDS Idea, Json, IOUtils
VARIABLES tpos, inst
Rec == ndJsonDeserialize(IOEnv.TRACE)
OSched(t, k, x) == IdeaSched(t, k, x)
OEnc(ks, b) == IdeaEnc(ks, b)
ODec(ks, b) == IdeaDec(ks, b)
ExtraKinds == {}
INSTANCE ConfBase
=============================================================================
