use super::*;
pub fn run(_cx: &mut Ctx, _args: &Args, _rng: &mut Rng) -> i32 { 2 }
