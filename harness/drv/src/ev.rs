//! NDJSON event output and panic capture.

use serde_json::{Value, json};
use std::io::Write;
use std::panic::{AssertUnwindSafe, catch_unwind};
use std::sync::Mutex;

pub struct Out {
    w: Mutex<Box<dyn Write + Send>>,
}
impl Out {
    pub fn new(path: Option<&str>) -> Self {
        let w: Box<dyn Write + Send> = match path {
            Some(p) if p != "-" => Box::new(std::io::BufWriter::with_capacity(
                1 << 20,
                std::fs::File::create(p).expect("create trace file"),
            )),
            _ => Box::new(std::io::BufWriter::new(std::io::stdout())),
        };
        Out { w: Mutex::new(w) }
    }
    pub fn emit(&self, v: Value) {
        let mut w = self.w.lock().unwrap();
        serde_json::to_writer(&mut *w, &v).unwrap();
        w.write_all(b"\n").unwrap();
    }
    pub fn flush(&self) {
        self.w.lock().unwrap().flush().unwrap();
    }
}

thread_local! {
    /// file:line of the last panic raised on this thread (set by the panic hook)
    pub static LAST_PANIC: std::cell::RefCell<String> = const { std::cell::RefCell::new(String::new()) };
}
pub fn last_panic() -> String {
    LAST_PANIC.with(|c| c.borrow().clone())
}
/// The driver is the only member of its workspace, so its own files are reported as `drv/src/...`; the crates under test
/// (path dependencies), the registry crates and std are reported with other (absolute, or crate-relative in a shadow
/// workspace: `aes/src/...`) paths.
pub fn is_driver_location(loc: &str) -> bool {
    loc.starts_with("drv/src/") || loc.starts_with("src/")
}

/// Run `f`; a panic becomes `Err(message)`.  A panic raised by the driver's own code inside `f` is a tool error.
pub fn catch<R>(f: impl FnOnce() -> R) -> Result<R, String> {
    match catch_unwind(AssertUnwindSafe(f)) {
        Ok(r) => Ok(r),
        Err(e) => {
            let loc = last_panic();
            if std::env::var_os("VERIF_DRV_TRACE_PANICS").is_some() {
                eprintln!("caught panic at {loc}");
            }
            if is_driver_location(&loc) {
                eprintln!("driver bug: panic in the driver's own code at {loc}");
                std::process::exit(2);
            }
            let msg = if let Some(s) = e.downcast_ref::<&str>() {
                s.to_string()
            } else if let Some(s) = e.downcast_ref::<String>() {
                s.clone()
            } else {
                "panic".to_string()
            };
            Err(msg)
        }
    }
}

pub fn bytes(b: &[u8]) -> Value {
    json!(b)
}
/// a byte string split into blocks
pub fn blocks(b: &[u8], bs: usize) -> Value {
    Value::Array(b.chunks(bs).map(|c| json!(c)).collect())
}
pub fn text(s: &str) -> Value {
    json!(s.bytes().collect::<Vec<u8>>())
}
