------------------------------ MODULE Conf_Xtea ------------------------------
EXTENDS Xtea, Json, IOUtils
VARIABLES tpos, inst
Rec == ndJsonDeserialize(IOEnv.TRACE)
OSched(t, k, x) == XteaSched(t, k, x)
OEnc(ks, b) == XteaEnc(ks, b)
ODec(ks, b) == XteaDec(ks, b)
ExtraKinds == {}
INSTANCE ConfBase
=============================================================================
