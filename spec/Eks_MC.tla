------------------------------- MODULE Eks_MC -------------------------------
(***************************************************************************)
(* Call-sequence skeleton of the bcrypt (eksblowfish) primitives: a state  *)
(* created by bc_init_state is driven by any sequence of bc_expand_key(k), *)
(* salted_expand_key(s, k) and bc_encrypt.  The abstract state is the      *)
(* sequence of key-setup steps applied so far (the reference algorithm's   *)
(* <<P,S>> is a function of exactly that); TLC enumerates every sequence   *)
(* up to MaxSteps over two abstract keys and two abstract salts and prints *)
(* one scenario per transition for the replay driver.  The bit-precise     *)
(* meaning of each step is Blowfish.tla (ExpandKey), applied by            *)
(* Conf_Blowfish to the recorded trace.                                    *)
(***************************************************************************)
EXTENDS Naturals, Sequences, TLC, Json

CONSTANTS MaxSteps
VARIABLES setup,   \* sequence of key-setup steps applied to the state since init
          probes,  \* number of encrypt calls since the last setup step
          hist

vars == <<setup, probes, hist>>
view == <<setup, probes>>
Init == setup = <<>> /\ probes = 0 /\ hist = <<>>
Steps == Len(hist)

Expand(k) ==
    /\ Steps < MaxSteps
    /\ setup' = Append(setup, <<"expand", k>>) /\ probes' = 0
    /\ hist' = Append(hist, <<"expand", k, 0>>)
Salted(s, k) ==
    /\ Steps < MaxSteps
    /\ setup' = Append(setup, <<"salted", s, k>>) /\ probes' = 0
    /\ hist' = Append(hist, <<"salted", s, k>>)
\* encryption does not change the state
Encrypt ==
    /\ Steps < MaxSteps /\ probes < 1
    /\ probes' = probes + 1 /\ UNCHANGED setup
    /\ hist' = Append(hist, <<"encrypt", 0, 0>>)

Next == (\E k \in {0, 1} : Expand(k)) \/ (\E s \in {0, 1}, k \in {0, 1} : Salted(s, k)) \/ Encrypt
Spec == Init /\ [][Next]_vars

\* encrypt is a pure observation: the state is determined by the setup steps alone
ProbeIsPure == [][Encrypt => setup' = setup]_vars
TypeOK == Len(setup) <= MaxSteps
EmitScenario == PrintT(<<"SCEN", ToJson(hist')>>)
=============================================================================
