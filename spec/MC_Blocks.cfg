SPECIFICATION Spec
CONSTANTS
  Pars = {1, 2, 3}
  Vals = {1, 2}
INVARIANTS BatchIsMap Progress TailBound CallShape
CHECK_DEADLOCK FALSE
