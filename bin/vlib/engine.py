"""The check engine: runs drivers, merges/tags traces, lets TLC judge, writes evidence, reports."""
import json, os, re, time, hashlib, concurrent.futures as cf
from .common import *
from . import build, tlc

API_MOD = os.path.join(SPEC, "API_Trace.tla")
API_CFG = os.path.join(SPEC, "API_Trace.cfg")
KNOWN_FILE = os.environ.get("VERIF_KNOWN_FILE", os.path.join(VERIF, "known_findings.json"))   # (env: self-test of the mechanism only)


def conf_mod(fam):
    mod = os.path.join(SPEC, "conf", f"Conf_{fam}.tla")
    cfg = os.path.join(SPEC, "conf", f"Conf_{fam}.cfg")
    if not os.path.exists(cfg):
        cfg = os.path.join(SPEC, "conf", "Conf.cfg")
    return mod, cfg


class Violation:
    def __init__(self, pid, what, replay):
        self.pid, self.what, self.replay = pid, what, replay


class Check:
    """Accumulates the work of one property check."""

    def __init__(self, pid, tier, seed):
        self.pid, self.tier, self.seed = pid, tier, seed
        self.t0 = time.time()
        # per-process work directory (two runs of the same check may overlap); removed by finish()
        self.work = fresh_dir(os.path.join(OUT, "work", f"{pid}.{os.getpid()}"))
        _sweep_stale(os.path.join(OUT, "work"))
        if not os.environ.get("VERIF_KEEP_WORK"):
            import atexit
            atexit.register(shutil.rmtree, self.work, True)   # also after a tool error
        self.replay_dir = ensure_dir(os.path.join(OUT, "replay"))
        self.states = 0
        self.transitions = 0
        self.runs_ok = 0
        self.events = 0
        self.samples = []
        self.distinct = set()
        self.violations = []
        self.known_hits = {}
        self.notes = {}
        self.mc = []
        self.configs = set()
        self.corner = {}
        self.trusted = set()
        self.exhaustive = None
        self.known = load_known()
        self._n = 0

    # ------------------------------------------------------------------ traces
    def drive(self, cfg_id, subcmd, may_die=False, **kw):
        self._n += 1
        path = os.path.join(self.work, f"t{self._n}-{cfg_id}-{subcmd}.ndjson")
        kw.setdefault("seed", self.seed)
        self.configs.add(cfg_id)
        # a process that dies in the code under test (signal, abort, escaped panic) is data: the trace gets an
        # `abort` event, which no trace-spec action accepts.  Exit code 2 is the driver's own usage error.
        _, rc = build.drive_may_die(cfg_id, subcmd, path, **kw)
        if rc == 2:
            raise ToolError(f"driver {subcmd} ({cfg_id}) reported a usage/feature error (exit 2)")
        evs = read_ndjson_tolerant(path)
        if rc != 0:
            if not evs:
                # the driver died before recording a single event (could not create its output file, bad arguments...):
                # nothing of the code under test was observed, so this is a tool error, not a verdict
                raise ToolError(f"driver {subcmd} ({cfg_id}) exited {rc} without producing a trace")
            evs.append({"ev": "abort", "rc": rc, "cfg": cfg_id, "subcmd": subcmd})
        return evs

    def account(self, events):
        self.events += len(events)
        for e in events:
            ev = e.get("ev")
            if ev == "new":
                kc = e.get("kc", "")
                self.corner[kc] = self.corner.get(kc, 0) + 1
            if ev in ("enc", "dec"):
                self._dist(e.get("id"), ev, e.get("in"))
            elif ev == "blocks":
                for b in e.get("in", []):
                    self._dist(e.get("id"), e.get("dir"), b)
            elif ev in ("weak", "wblock", "haz", "bc", "raw", "debug", "algname", "zimg"):
                h = hashlib.blake2b(json.dumps(e, sort_keys=True).encode(), digest_size=8).digest()
                self.distinct.add(h)
            elif ev == "new" and self.pid in ("C11",):
                self.distinct.add((e.get("type"), len(e.get("key", [])), e.get("via")))

    def _dist(self, iid, d, blk):
        if blk is None:
            return
        key = self._keyof.get(iid)
        if key is None:
            return
        # trivial class: all-zero key with all-zero block
        if not any(key[1]) and not any(blk):
            return
        self.distinct.add(hashlib.blake2b(repr((key, d, blk)).encode(), digest_size=8).digest())

    def index_instances(self, events):
        """id -> (type, key) following clone/from, per run (ids are unique per trace)."""
        self._keyof = {}
        for e in events:
            ev = e.get("ev")
            if ev == "new" and e.get("out") == "ok":
                self._keyof[e["id"]] = (e["type"], tuple(e.get("key", [])) + tuple(e.get("x", [])))
            elif ev in ("clone", "from") and e.get("out") == "ok" and e.get("src") in self._keyof:
                self._keyof[e["id"]] = self._keyof[e["src"]]
            elif ev == "bc" and e.get("fn") == "init":
                self._keyof[e["id"]] = ("Blowfish-bc", (1,))

    def tag_known(self, events):
        """Tag events that match a known (unfixed) finding: selector AND defective observation."""
        for e in events:
            for k in self.known:
                if all(e.get(f) == v for f, v in k["match"].items()):
                    e["known"] = k["id"]
                    self.known_hits[k["id"]] = k
        return events

    def validate(self, events, module, cfg, tag, shards=None, timeout=None, what="trace", cost=len):
        """Let TLC judge a trace (sharded by run).  Records violations; never raises on a rejection."""
        if not events:
            return True
        self.index_instances(events)
        self.account(events)
        self.tag_known(events)
        if len(self.samples) < 6:
            pick = [e for e in events if e.get("ev") in ("enc", "blocks", "weak", "wblock", "haz", "bc", "debug", "zend", "new")]
            for e in pick[:1] + pick[len(pick) // 2:len(pick) // 2 + 1]:
                self.samples.append(trim_event(e))
        shards = shards or (12 if self.tier == "thorough" else 8)
        timeout = timeout or (3000 if self.tier == "thorough" else 900)
        ok, states, fail, results = tlc.validate_sharded(events, module, cfg, os.path.join(self.work, "sh"), tag,
                                                         shards=shards, timeout=timeout, cost=cost)
        self.states += states
        self.transitions += sum(max(0, r.states - 1) for r, _, _ in results)
        for r, path, evs in results:
            nruns = len(tlc.split_runs(evs))
            if r.accepted:
                self.runs_ok += nruns
            else:
                at = r.rejected_at
                bad = evs[at - 1]
                # the run containing the rejected line
                start = at - 1
                while start > 0 and evs[start].get("ev") != "reset":
                    start -= 1
                prefix = evs[start:at]
                self.runs_ok += sum(1 for e in evs[:start] if e.get("ev") == "reset")
                if bad.get("ev") == "end":
                    raise ToolError(f"malformed trace ({what}): observation obligations not discharged before `end` "
                                    f"(driver bug, not a verdict): {path} line {at}")
                rp = os.path.join(self.replay_dir, f"{self.pid}-{self.seed}-{len(self.violations) + 1}.ndjson")
                write_ndjson(rp, prefix)
                with open(rp + ".meta.json", "w") as f:
                    json.dump({"property": self.pid, "module": os.path.relpath(module, VERIF), "cfg": os.path.relpath(cfg, VERIF),
                               "rejected_event": trim_event(bad, 400), "what": what}, f, indent=1)
                self.violations.append(Violation(self.pid, f"{what}: {describe(bad)}", rp))
        return ok

    def kat(self, fam):
        """The pinned standard vectors must be accepted by the L2 module before it judges anything."""
        mod, cfg = conf_mod(fam)
        path = os.path.join(SPEC, "kat", f"{fam}.ndjson")
        if not os.path.exists(path):
            raise ToolError(f"no KAT trace for {fam}")
        r = tlc.validate_trace(path, mod, cfg, os.path.join(self.work, f"kat-{fam}"), timeout=900)
        if not r.accepted:
            raise ToolError(f"specification {fam} rejects its own standard vectors at line {r.rejected_at} "
                            f"(oracle broken; no verdict)")
        self.states += r.states
        self.transitions += max(0, r.states - 1)
        self.notes.setdefault("kat_events", {})[fam] = r.n
        self.trusted.add(f"spec/ciphers/{fam}.tla validated by spec/kat/{fam}.ndjson ({r.n} events of published vectors)")

    # ------------------------------------------------------------ model checking
    def model_check(self, module, cfg, name, workers=8, timeout=1200, must_cover=(), extra=None):
        r = tlc.model_check(os.path.join(SPEC, module), os.path.join(SPEC, cfg), os.path.join(self.work, "mc-" + name),
                            workers=workers, timeout=timeout, extra=extra)
        self.states += r.distinct
        self.transitions += r.transitions
        self.mc.append({"model": name, "distinct_states": r.distinct, "transitions": r.transitions, "depth": r.depth,
                        "wall_s": round(r.wall, 1), "ok": r.ok})
        if not r.ok:
            # a violated invariant of the bounded model is a defect of the *design model*, reported as tool error:
            # the model is ours, the code is judged by traces
            raise ToolError(f"bounded model {name} violates its own invariant:\n{r.out[-2500:]}")
        for a in must_cover:
            if r.coverage.get(a, 0) == 0:
                raise ToolError(f"vacuity guard: action {a} of {name} was never taken (coverage {r.coverage})")
        return r

    # ----------------------------------------------------------------- finishing
    def finish(self, rule, assumptions=(), extra_cov=None):
        wall = time.time() - self.t0
        cov = {
            "states": max(1, self.states),
            "transitions": max(1, self.transitions),
            "traces_validated_against_impl": self.runs_ok,
            "samples": self.samples[:6] or [{"note": "no events"}],
            "evaluations": self.events,
            "distinct_nontrivial": len(self.distinct),
            "rule": rule,
            "configurations": sorted(self.configs),
            "key_corner_classes": self.corner,
            "bounded_models": self.mc,
            "trusted_base": sorted(self.trusted),
            "checker_cmd": "java -cp tla2tools.jar tlc2.TLC (trace specs: -workers 1, POSTCONDITION TraceAccepted)",
        }
        if self.exhaustive is not None:
            cov["exhaustive"] = self.exhaustive
        cov.update(self.notes)
        if extra_cov:
            cov.update(extra_cov)
        ev = {
            "property_id": self.pid, "tier": self.tier, "seed": self.seed, "level": "model_checking",
            "coverage": cov, "assumptions": list(assumptions), "wall_s": round(wall, 1),
            "violations": len(self.violations),
        }
        ensure_dir(EVIDENCE)
        with open(os.path.join(EVIDENCE, f"{self.pid}.json"), "w") as f:
            json.dump(ev, f, indent=1)
        for k in self.known_hits.values():
            print(f"KNOWN-FINDING: property={k['property']} {k['what']}")
        for v in self.violations:
            print(f"VIOLATION property={v.pid} replay={v.replay}")
            log("  " + v.what)
        if not os.environ.get("VERIF_KEEP_WORK"):
            shutil.rmtree(self.work, ignore_errors=True)      # the failing runs are in out/replay
        log(f"[{self.pid}] {self.tier}: {self.events} events, {self.runs_ok} runs accepted, "
            f"{self.states} states, {len(self.violations)} violation(s), {wall:.0f}s")
        return 1 if self.violations else 0


def _sweep_stale(root, max_age_s=6 * 3600):
    """remove work directories left behind by killed runs"""
    try:
        now = time.time()
        for d in os.listdir(root):
            p = os.path.join(root, d)
            if os.path.isdir(p) and now - os.path.getmtime(p) > max_age_s:
                shutil.rmtree(p, ignore_errors=True)
    except OSError:
        pass


def load_known():
    if not os.path.exists(KNOWN_FILE):
        return []
    with open(KNOWN_FILE) as f:
        d = json.load(f)
    return d.get("known", [])


def trim_event(e, n=160):
    out = {}
    for k, v in e.items():
        if isinstance(v, list) and len(json.dumps(v)) > n:
            out[k] = v[:4] + ["..."] if v and not isinstance(v[0], list) else [v[0][:8] + ["..."], "..."]
        elif isinstance(v, str) and len(v) > n:
            out[k] = v[:n] + "..."
        else:
            out[k] = v
    return out


def describe(e):
    t = trim_event(e, 120)
    return json.dumps(t)[:500]


def read_ndjson_tolerant(path):
    evs = []
    if not os.path.exists(path):
        return evs
    with open(path) as f:
        for l in f:
            l = l.strip()
            if not l:
                continue
            try:
                evs.append(json.loads(l))
            except ValueError:
                break   # truncated last line of a process that died
    return evs


def renumber(events, offset):
    """Make instance ids of one configuration's trace disjoint from the others' before merging."""
    for e in events:
        for f in ("id", "src"):
            if f in e and isinstance(e[f], int):
                e[f] += offset
    return events


def merge_by_run(traces):
    """traces: list of (cfg_id, events) produced by the *same seeded script*.  Returns one trace in which
    run k of every configuration shares one `reset` (so they share the learned permutation)."""
    split = [(c, tlc.split_runs(renumber(evs, (i + 1) * 10_000_000))) for i, (c, evs) in enumerate(traces)]
    nruns = max(len(r) for _, r in split)
    out = []
    for k in range(nruns):
        first = True
        for c, runs in split:
            if k >= len(runs):
                continue
            for e in runs[k]:
                if e.get("ev") == "reset":
                    if first:
                        out.append(e)
                        first = False
                    continue
                if e.get("ev") == "end":
                    continue
                e["cfg"] = c
                out.append(e)
        out.append({"ev": "end", "run": k})
    return out


_FAM_ALIAS = {"Tdes": "Des", "Magma": "Gost"}


def coarse_family(type_name):
    """A partition of the catalogue types that is coarser than "may share a key class" (Enc/Dec halves, DES and its
    triple forms, the S-box sets of GOST 28147-89, re-parameterised twins all stay together)."""
    import re
    m = re.match(r"[A-Z][a-z]+", type_name)
    f = m.group(0) if m else re.match(r"[A-Z]+", type_name).group(0)
    return _FAM_ALIAS.get(f, f)


def split_by_family(events):
    """Re-cut a single-run trace into one run per coarse family (events keep their relative order).  Key classes never
    span two families, so each run can learn its own permutations and the runs can be validated in parallel."""
    fam_of, runs, order = {}, {}, []
    reset = next((e for e in events if e.get("ev") == "reset"), {"ev": "reset", "run": 0})
    for e in events:
        ev = e.get("ev")
        if ev in ("reset", "end"):
            continue
        if "type" in e and "id" in e:
            fam_of[e["id"]] = coarse_family(e["type"])
        if ev in ("clone", "from") and e.get("src") in fam_of and e.get("id") not in fam_of:
            fam_of[e["id"]] = fam_of[e["src"]]
        f = fam_of.get(e.get("id")) or (coarse_family(e["type"]) if "type" in e else "misc")
        if f not in runs:
            runs[f] = []
            order.append(f)
        runs[f].append(e)
    out = []
    for k, f in enumerate(order):
        r = dict(reset)
        r["run"] = k
        r["what"] = f"{reset.get('what', '')}/{f}"
        out.append(r)
        out += runs[f]
        out.append({"ev": "end", "run": k})
    return out

