------------------------------ MODULE Conf_DES ------------------------------
EXTENDS DES, Json, IOUtils
VARIABLES tpos, inst
Rec == ndJsonDeserialize(IOEnv.TRACE)
OSched(t, k, x) == DESSched(t, k, x)
OEnc(ks, b) == DESEnc(ks, b)
ODec(ks, b) == DESDec(ks, b)
ExtraKinds == {}
INSTANCE ConfBase
=============================================================================
