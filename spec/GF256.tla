------------------------------- MODULE GF256 -------------------------------
(***************************************************************************)
(* Arithmetic in GF(2^8) = GF(2)[x]/(poly), poly given as a 9-bit number   *)
(* (0x11B = 283 AES/ARIA/SM4/Camellia, 0x1C3 = 451 Kuznyechik,             *)
(*  0x169 = 361 Twofish MDS, 0x14D = 333 Twofish RS).                      *)
(***************************************************************************)
EXTENDS Naturals, Sequences, Bitwise, TLC

XTime(poly, a) == LET d == 2 * a IN IF d >= 256 THEN d ^^ poly ELSE d

RECURSIVE GFMulR(_, _, _, _)
GFMulR(poly, a, b, n) ==
    IF n = 0 \/ b = 0 THEN 0
    ELSE LET rest == GFMulR(poly, XTime(poly, a), b \div 2, n - 1)
         IN IF b % 2 = 1 THEN a ^^ rest ELSE rest
\* product of a and b in GF(2^8)/poly
GFMul(poly, a, b) == GFMulR(poly, a, b, 8)

\* table x |-> c*x, as a function on 0..255
MulTab(poly, c) == TLCEval([x \in 0..255 |-> GFMul(poly, c, x)])

RECURSIVE GFPowR(_, _, _)
GFPowR(poly, a, e) == IF e = 0 THEN 1 ELSE GFMul(poly, a, GFPowR(poly, a, e - 1))
\* multiplicative inverse with 0 |-> 0: a^254
GFInv(poly, a) ==
    LET a2 == GFMul(poly, a, a)       a4 == GFMul(poly, a2, a2)
        a8 == GFMul(poly, a4, a4)     a16 == GFMul(poly, a8, a8)
        a32 == GFMul(poly, a16, a16)  a64 == GFMul(poly, a32, a32)
        a128 == GFMul(poly, a64, a64)
    IN GFMul(poly, a128, GFMul(poly, a64, GFMul(poly, a32,
         GFMul(poly, a16, GFMul(poly, a8, GFMul(poly, a4, a2))))))
InvTab(poly) == TLCEval([x \in 0..255 |-> GFInv(poly, x)])

\* inverse of a permutation table on 0..(n-1)
InvPerm(t, n) == TLCEval([y \in 0..(n - 1) |-> CHOOSE x \in 0..(n - 1) : t[x] = y])
IsPerm(t, n) == {t[x] : x \in 0..(n - 1)} = 0..(n - 1)
=============================================================================
