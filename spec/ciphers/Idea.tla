-------------------------------- MODULE Idea --------------------------------
(***************************************************************************)
(* IDEA (Lai & Massey, "A Proposal for a New Block Encryption Standard",   *)
(* EUROCRYPT '90 / "Markov Ciphers and Differential Cryptanalysis" '91):   *)
(* 64-bit block as four big-endian 16-bit sub-blocks X1..X4, 128-bit key,  *)
(* 8 rounds plus the output transformation, 52 subkeys.                    *)
(*                                                                         *)
(* The three group operations on 16-bit sub-blocks are                     *)
(*   xor,   addition modulo 2^16,   multiplication modulo 2^16 + 1         *)
(* where for the multiplication the all-zero sub-block stands for 2^16     *)
(* (the prime 65537 makes 1..65536 a group); a result of 2^16 is written   *)
(* as 0.  The multiplication is defined mathematically here (no            *)
(* low-high trick); only the 32-bit limit of TLC integers forces the       *)
(* product to be accumulated bytewise.                                     *)
(*                                                                         *)
(* KATs (spec/kat/Idea.ndjson): the classic vector of the IDEA paper /     *)
(* Schneier (key 0001 0002 ... 0008, plaintext 0000 0001 0002 0003 ->      *)
(* 11fb ed2b 0198 6de5); the NESSIE verified test vectors                  *)
(* Idea-128-64.verified.test-vectors as contained in                       *)
(* /repo/idea/tests/data/idea.blb; 12 random vectors from OpenSSL 3.5      *)
(* `openssl enc -idea-ecb -nopad` (legacy provider).  All cross-checked    *)
(* with a textbook python model.                                           *)
(***************************************************************************)
EXTENDS Naturals, Sequences, Bitwise, TLC, Words

P == 65537      \* 2^16 + 1, prime
W == 65536

\* a * b mod 65537 for a, b in 1..65536, without exceeding 2^31:
\* b = 256 * bh + bl with bh <= 256
MulModP(a, b) == (((a * (b \div 256)) % P) * 256 + a * (b % 256)) % P

\* the IDEA multiplication on sub-blocks 0..65535 (0 represents 2^16)
Rep(a) == IF a = 0 THEN W ELSE a
Mul(a, b) == MulModP(Rep(a), Rep(b)) % W
Add(a, b) == (a + b) % W

\* additive inverse mod 2^16
AddInv(a) == (W - a) % W
\* multiplicative inverse mod 2^16 + 1 by Fermat: a^(p-2) = a^(2^16 - 1).
\* PowOnes(a, x, k): x = a^(2^k - 1)  |->  a^(2^16 - 1)
RECURSIVE PowOnes(_, _, _)
PowOnes(a, x, k) == IF k = 16 THEN x ELSE PowOnes(a, MulModP(MulModP(x, x), a), k + 1)
MulInv(a) == PowOnes(Rep(a), Rep(a), 1) % W

\* ----------------------------------------------------------- key schedule
\* The 128-bit key is split into eight 16-bit subkeys (most significant
\* first); then it is rotated left by 25 bits and split again, and so on,
\* until 52 subkeys have been produced.
\* The 128-bit register is a Words.tla word of eight 16-bit limbs (least
\* significant first); its subkeys in order are the limbs reversed.
RECURSIVE KeyBlocks(_, _)
KeyBlocks(reg, n) ==
    IF n = 0 THEN <<>> ELSE Rev(reg) \o KeyBlocks(RotLW(W, reg, 25), n - 1)

\* Z[6(r-1)+1 .. 6(r-1)+6] = Z1..Z6 of round r; Z[49..52] = output transformation
EncSubkeys(key) == SubSeqB(KeyBlocks(BE16(key), 7), 1, 52)

\* Decryption subkeys in the standard order (K = encryption subkeys):
\*   round 1     : K1(9)^-1, -K2(9),    -K3(9),    K4(9)^-1,    K5(8),   K6(8)
\*   round r=2..8: K1(10-r)^-1, -K3(10-r), -K2(10-r), K4(10-r)^-1, K5(9-r), K6(9-r)
\*   output tr.  : K1(1)^-1, -K2(1),    -K3(1),    K4(1)^-1
DecSubkeys(Z) ==
    LET K(r, i) == Z[6 * (r - 1) + i]
        Blk(r) == IF r = 1 THEN
                    <<MulInv(K(9, 1)), AddInv(K(9, 2)), AddInv(K(9, 3)), MulInv(K(9, 4)), K(8, 5), K(8, 6)>>
                  ELSE IF r <= 8 THEN
                    <<MulInv(K(10 - r, 1)), AddInv(K(10 - r, 3)), AddInv(K(10 - r, 2)), MulInv(K(10 - r, 4)),
                      K(9 - r, 5), K(9 - r, 6)>>
                  ELSE
                    <<MulInv(K(1, 1)), AddInv(K(1, 2)), AddInv(K(1, 3)), MulInv(K(1, 4))>>
    IN Flatten([r \in 1..9 |-> Blk(r)])

\* ------------------------------------------------------------- the cipher
\* one round with subkeys z = <<Z1..Z6>> on X = <<X1, X2, X3, X4>>:
\* the group operations with Z1..Z4, the MA structure, and the swap of the
\* two inner sub-blocks
Round(z, X) ==
    LET y1 == Mul(X[1], z[1])
        y2 == Add(X[2], z[2])
        y3 == Add(X[3], z[3])
        y4 == Mul(X[4], z[4])
        \* multiplication-addition structure on (y1 xor y3, y2 xor y4)
        t0 == Mul(y1 ^^ y3, z[5])
        t1 == Mul(Add(y2 ^^ y4, t0), z[6])
        t2 == Add(t0, t1)
        \* before the swap: <<y1 ^ t1, y2 ^ t2, y3 ^ t1, y4 ^ t2>>
    IN TLCEval(<<y1 ^^ t1, y3 ^^ t1, y2 ^^ t2, y4 ^^ t2>>)

RECURSIVE Rounds(_, _, _)
Rounds(Z, r, X) == IF r > 8 THEN X ELSE Rounds(Z, r + 1, Round(SubSeq(Z, 6*r - 5, 6*r), X))

\* the swap of the last round is undone, then the output transformation
OutputTransform(z, X) ==
    <<Mul(X[1], z[1]), Add(X[3], z[2]), Add(X[2], z[3]), Mul(X[4], z[4])>>

\* big-endian sub-blocks
SubBlocks(bs) == <<256 * bs[1] + bs[2], 256 * bs[3] + bs[4], 256 * bs[5] + bs[6], 256 * bs[7] + bs[8]>>
Bytes(X) == <<X[1] \div 256, X[1] % 256, X[2] \div 256, X[2] % 256,
              X[3] \div 256, X[3] % 256, X[4] \div 256, X[4] % 256>>

Crypt(Z, in) == Bytes(OutputTransform(SubSeq(Z, 49, 52), Rounds(Z, 1, SubBlocks(in))))

\* ------------------------------------------------- conformance interface
IdeaSched(type, key, x) ==
    LET Z == EncSubkeys(key) IN [enc |-> Z, dec |-> DecSubkeys(Z)]
IdeaEnc(ks, in) == Crypt(ks.enc, in)
IdeaDec(ks, in) == Crypt(ks.dec, in)
=============================================================================
