"""Shared paths, process helpers and exit-code conventions.

exit 0 = property held on everything explored
exit 1 = VIOLATION (always with a `VIOLATION property=<id> replay=<path>` line)
exit 2 = tool error / timeout / malformed trace: never a verdict
"""
import json, os, subprocess, sys, time, shutil, hashlib

VERIF = os.path.dirname(os.path.dirname(os.path.dirname(os.path.abspath(__file__))))
REPO = os.environ.get("VERIF_REPO", "/repo")
SPEC = os.path.join(VERIF, "spec")
HARNESS = os.path.join(VERIF, "harness")
OUT = os.path.join(VERIF, "out")
EVIDENCE = os.path.join(VERIF, "evidence")
if os.path.realpath(REPO) != "/repo":
    # development aid: run the checks against another checkout (e.g. a scratch worktree with a seeded change) without
    # touching /repo, /verif/evidence or the main build caches.  Registered checks always run against /repo.
    _tag = hashlib.sha1(os.path.realpath(REPO).encode()).hexdigest()[:10]
    OUT = os.path.join(VERIF, "out", "alt-" + _tag)
    EVIDENCE = os.path.join(OUT, "evidence")
    _ALT_HARNESS = os.path.join(OUT, "harness")
TLA_JAR = "/opt/veriftools/tla/tla2tools.jar"
CM_JAR = "/opt/veriftools/tla/CommunityModules-deps.jar"
NCPU = os.cpu_count() or 4


class ToolError(Exception):
    """Anything that is not a verdict: build failure, TLC crash, timeout, malformed trace."""


def log(*a):
    print(*a, file=sys.stderr, flush=True)


def alt_harness():
    """A copy of the harness workspace whose path dependencies point at REPO (only when REPO is not /repo)."""
    if os.path.realpath(REPO) == "/repo":
        return HARNESS
    import threading, fcntl
    dst = _ALT_HARNESS
    os.makedirs(dst, exist_ok=True)
    # one copy at a time (setup builds configurations from several threads; other processes may use the same checkout)
    with _ALT_LOCK, open(dst + ".lock", "w") as lf:
        fcntl.flock(lf, fcntl.LOCK_EX)
        return _alt_harness_sync(dst)


_ALT_LOCK = __import__("threading").Lock()


def _alt_harness_sync(dst):
    tmp = dst + ".new"
    shutil.rmtree(tmp, ignore_errors=True)
    os.makedirs(tmp)
    for name in ("drv", "tfz", ".cargo"):
        shutil.copytree(os.path.join(HARNESS, name), os.path.join(tmp, name))
    for name in ("Cargo.toml", "Cargo.lock"):
        shutil.copy(os.path.join(HARNESS, name), os.path.join(tmp, name))
    for m in ("drv", "tfz"):
        f = os.path.join(tmp, m, "Cargo.toml")
        t = open(f).read().replace('path = "/repo/', 'path = "%s/' % os.path.realpath(REPO))
        open(f, "w").write(t)
    subprocess.run(["rsync", "-rc", "--delete", "--exclude", "target", tmp + "/", dst + "/"], check=True)
    shutil.rmtree(tmp, ignore_errors=True)
    return dst


def ensure_dir(p):
    os.makedirs(p, exist_ok=True)
    return p


def fresh_dir(p):
    shutil.rmtree(p, ignore_errors=True)
    os.makedirs(p)
    return p


def seed_from_env(default=1):
    try:
        return int(os.environ.get("VERIF_SEED", default))
    except ValueError:
        return default


def read_ndjson(path):
    with open(path) as f:
        return [json.loads(l) for l in f if l.strip()]


def write_ndjson(path, events):
    with open(path, "w") as f:
        for e in events:
            f.write(json.dumps(e, separators=(",", ":")) + "\n")


def run(cmd, cwd=None, env=None, timeout=None, check=True, capture=True):
    e = dict(os.environ)
    if env:
        e.update(env)
    try:
        p = subprocess.run(cmd, cwd=cwd, env=e, timeout=timeout, text=True,
                           stdout=subprocess.PIPE if capture else None,
                           stderr=subprocess.STDOUT if capture else None)
    except subprocess.TimeoutExpired as ex:
        raise ToolError(f"timeout after {timeout}s: {' '.join(cmd[:6])}...") from ex
    if check and p.returncode != 0:
        raise ToolError(f"command failed ({p.returncode}): {' '.join(cmd[:8])}\n{(p.stdout or '')[-3000:]}")
    return p
