#!/usr/bin/env python3
"""Which substitution set is id-Gost28147-89-CryptoPro-D-ParamSet (RFC 4357, OID 1.2.643.2.2.31.4)?

Compares, on random key/block pairs, a straightforward RFC 8891 implementation of the GOST 28147-89
network (big-endian words, as the `magma` crate) using
  (a) the rows pinned in spec/ciphers/Magma.tla as PiCryptoProD,
  (b) the rows called `CryptoProD` in /repo/magma/src/sboxes.rs,
against libgcrypt (GCRY_CIPHER_GOST28147, gcry_cipher_set_sbox(<OID>)), an independent implementation.

Expected output: (a) agrees with OID 1.2.643.2.2.31.4 on every pair, (b) on none; (b) agrees with OID
1.2.643.2.2.30.1 (id-GostR3411-94-CryptoProParamSet, the set of the GOST R 34.11-94 hash) on every pair.

usage: magma_cryptopro_d_check.py [npairs=64] [seed=1]
Needs libgcrypt.so.20 (>= 1.6).  Read-only; writes nothing.
"""
import ctypes, random, re, sys

# rows in the layout of /repo/magma/src/sboxes.rs (SmallSbox): row i = table of nibble i (nibble 0 = least
# significant nibble of the 32-bit word) = K_{i+1} of RFC 4357 = Pi'_i of RFC 8891
SPEC_D = [  # RFC 4357 hex string 'FB110831 C6C5C00A 23BE8F66 A40C93F8 6CFAD21F 4FE725EB 5E60AE90 025DBB24 ...'
    [15, 12, 2, 10, 6, 4, 5, 0, 7, 9, 14, 13, 1, 11, 8, 3],
    [11, 6, 3, 4, 12, 15, 14, 2, 7, 13, 8, 0, 5, 10, 9, 1],
    [1, 12, 11, 0, 15, 14, 6, 5, 10, 13, 4, 8, 9, 3, 7, 2],
    [1, 5, 14, 12, 10, 7, 0, 13, 6, 2, 11, 4, 9, 3, 15, 8],
    [0, 12, 8, 9, 13, 2, 10, 11, 7, 3, 6, 5, 4, 14, 15, 1],
    [8, 0, 15, 3, 2, 5, 14, 11, 1, 10, 4, 7, 12, 9, 13, 6],
    [3, 0, 6, 15, 1, 14, 9, 2, 13, 8, 12, 4, 11, 10, 5, 7],
    [1, 10, 6, 8, 15, 11, 0, 4, 12, 3, 5, 9, 7, 13, 2, 14],
]

OIDS = {
    "Magma": "1.2.643.7.1.2.5.1.1",            # id-tc26-gost-28147-param-Z
    "Gost89Test": "1.2.643.2.2.30.0",          # id-GostR3411-94-TestParamSet
    "Gost89CryptoProA": "1.2.643.2.2.31.1",
    "Gost89CryptoProB": "1.2.643.2.2.31.2",
    "Gost89CryptoProC": "1.2.643.2.2.31.3",
    "Gost89CryptoProD": "1.2.643.2.2.31.4",
    "HashCryptoPro": "1.2.643.2.2.30.1",       # id-GostR3411-94-CryptoProParamSet
}
RUST_NAMES = {"Magma": "Tc26", "Gost89Test": "TestSbox", "Gost89CryptoProA": "CryptoProA",
              "Gost89CryptoProB": "CryptoProB", "Gost89CryptoProC": "CryptoProC", "Gost89CryptoProD": "CryptoProD"}


def rust_sets(path="/repo/magma/src/sboxes.rs"):
    src = open(path).read()
    sets = {}
    for m in re.finditer(r'impl Sbox for (\w+) \{.*?SBOX: SmallSbox = \[(.*?)\];', src, re.S):
        rows = [[int(v) for v in r.split(",") if v.strip()] for r in re.findall(r'\[([^\[\]]*)\]', m.group(2))]
        assert len(rows) == 8 and all(len(r) == 16 for r in rows)
        sets[m.group(1)] = rows
    return sets


def rotl32(v, r):
    return ((v << r) | (v >> (32 - r))) & 0xffffffff


def magma_ref(rows, key, blk, dec=False):
    """RFC 8891 section 4-5 with the substitution set `rows`."""
    K = [int.from_bytes(key[4 * i:4 * i + 4], "big") for i in range(8)]
    rk = K * 3 + K[::-1]
    if dec:
        rk = rk[::-1]
    a1, a0 = int.from_bytes(blk[:4], "big"), int.from_bytes(blk[4:], "big")

    def g(k, a):
        s = (a + k) & 0xffffffff
        return rotl32(sum(rows[i][(s >> (4 * i)) & 15] << (4 * i) for i in range(8)), 11)
    for i in range(31):
        a1, a0 = a0, g(rk[i], a0) ^ a1
    a1 = g(rk[31], a0) ^ a1
    return a1.to_bytes(4, "big") + a0.to_bytes(4, "big")


_g = None


def _lib():
    global _g
    if _g is None:
        _g = ctypes.CDLL("libgcrypt.so.20")
        _g.gcry_check_version.restype = ctypes.c_char_p
        _g.gcry_check_version(None)
    return _g


def gcry_classic(oid, key, block, dec=False):
    """libgcrypt GOST 28147-89 ECB in its native (little-endian, RFC 4357/5830) byte order."""
    g = _lib()
    hd = ctypes.c_void_p()
    assert g.gcry_cipher_open(ctypes.byref(hd), 315, 1, 0) == 0          # GCRY_CIPHER_GOST28147, ECB
    assert g.gcry_cipher_ctl(hd, 73, oid.encode(), 0) == 0, oid           # GCRYCTL_SET_SBOX
    assert g.gcry_cipher_setkey(hd, key, len(key)) == 0
    out = ctypes.create_string_buffer(len(block))
    f = g.gcry_cipher_decrypt if dec else g.gcry_cipher_encrypt
    assert f(hd, out, len(block), block, len(block)) == 0
    g.gcry_cipher_close(hd)
    return out.raw


def gcry_magma_order(oid, key, block, dec=False):
    """The same function in the byte order of RFC 8891 / the magma crate: every 32-bit key word
    byte-reversed, the 8-byte block reversed on input and on output (checked below against the RFC 8891
    example for the Z set)."""
    k = b"".join(key[i:i + 4][::-1] for i in range(0, 32, 4))
    return gcry_classic(oid, k, block[::-1], dec)[::-1]


def hash_set_evidence(rust):
    """Optional (needs libnettle.so.8): the table nettle uses for GOST R 34.11-94 with the CryptoPro
    parameter set decodes to the crate's `CryptoProD` rows, and that hash gives the well-known digest of ""."""
    import struct
    try:
        n = ctypes.CDLL("libnettle.so.8")
        t = bytes((ctypes.c_ubyte * 4096).in_dll(n, "_nettle_gost28147_param_CryptoPro_3411"))
    except (OSError, ValueError):
        print("  (libnettle not available: hash-set evidence skipped)")
        return
    rows = [[None] * 16 for _ in range(8)]
    for j in range(4):              # nettle: t[j][i] = rotl11((K_{2j+1}[i & 15] | K_{2j+2}[i >> 4] << 4) << 8j)
        for i in range(256):
            v = rotl32(struct.unpack_from("<I", t, 4 * (256 * j + i))[0], 21) >> (8 * j)
            rows[2 * j][i & 15], rows[2 * j + 1][i >> 4] = v & 15, v >> 4
    ctx = ctypes.create_string_buffer(1024)
    out = ctypes.create_string_buffer(32)
    n.nettle_gosthash94_init(ctx)
    n.nettle_gosthash94cp_update(ctx, 0, b"")
    n.nettle_gosthash94cp_digest(ctx, 32, out)
    print("  nettle GOST R 34.11-94-CryptoPro table == rust `CryptoProD` rows:", rows == rust["CryptoProD"],
          "; gosthash94cp('') =", out.raw.hex(),
          "(well-known: 981e5f3ca30c841487830f84fb433e13ac1101569b9c13584ac483234cd656c0)")


def main():
    n = int(sys.argv[1]) if len(sys.argv) > 1 else 64
    rng = random.Random(int(sys.argv[2]) if len(sys.argv) > 2 else 1)
    rust = rust_sets()
    key = bytes.fromhex("ffeeddccbbaa99887766554433221100f0f1f2f3f4f5f6f7f8f9fafbfcfdfeff")
    pt = bytes.fromhex("fedcba9876543210")
    # anchor: the byte-order mapping reproduces the published RFC 8891 A.4 vector
    z = gcry_magma_order(OIDS["Magma"], key, pt)
    print("RFC 8891 A.4 via libgcrypt (Z set):", z.hex(), "ok" if z.hex() == "4ee901e5c2d8ca3d" else "MISMATCH")
    assert z.hex() == "4ee901e5c2d8ca3d" and magma_ref(rust["Tc26"], key, pt) == z
    pairs = [(rng.randbytes(32), rng.randbytes(8)) for _ in range(n)]

    def agree(rows, oid):
        return sum(magma_ref(rows, k, b) == gcry_magma_order(oid, k, b)
                   and magma_ref(rows, k, b, True) == gcry_magma_order(oid, k, b, True) for k, b in pairs)
    print(f"{n} random key/block pairs (enc and dec):")
    for name in ["Magma", "Gost89Test", "Gost89CryptoProA", "Gost89CryptoProB", "Gost89CryptoProC", "Gost89CryptoProD"]:
        print(f"  rust rows {RUST_NAMES[name]:10} vs libgcrypt {OIDS[name]:20} ({name}): {agree(rust[RUST_NAMES[name]], OIDS[name])}/{n} agree")
    print(f"  rust rows CryptoProD vs libgcrypt {OIDS['HashCryptoPro']:20} (id-GostR3411-94-CryptoProParamSet): "
          f"{agree(rust['CryptoProD'], OIDS['HashCryptoPro'])}/{n} agree")
    a = agree(SPEC_D, OIDS["Gost89CryptoProD"])
    print(f"  spec rows PiCryptoProD vs libgcrypt {OIDS['Gost89CryptoProD']:20} (Gost89CryptoProD): {a}/{n} agree")
    print("the vector: type Gost89CryptoProD, key", key.hex(), "block", pt.hex())
    print("  libgcrypt OID 1.2.643.2.2.31.4 :", gcry_magma_order(OIDS["Gost89CryptoProD"], key, pt).hex())
    print("  spec rows (RFC 4357 D)         :", magma_ref(SPEC_D, key, pt).hex())
    print("  rust rows `CryptoProD`         :", magma_ref(rust["CryptoProD"], key, pt).hex())
    print("  libgcrypt OID 1.2.643.2.2.30.1 :", gcry_magma_order(OIDS["HashCryptoPro"], key, pt).hex())
    ok = a == n and agree(rust["CryptoProD"], OIDS["Gost89CryptoProD"]) == 0
    hash_set_evidence(rust)
    print("verdict:", "spec rows = OID 31.4; rust `CryptoProD` rows = OID 30.1 (hash set), not the D set" if ok else "UNEXPECTED")
    return 0 if ok else 1


if __name__ == "__main__":
    sys.exit(main())
