--------------------------- MODULE DesWeakSanity ---------------------------
(***************************************************************************)
(* Guards the pinned weak-key table of Catalogue.tla against transcription *)
(* errors, using the L2 DES specification: entries 1-4 (weak) generate one *)
(* distinct round key and are involutions, entries 5-16 (semi-weak) two    *)
(* and come in pairs with E_k1(E_k2(x)) = x, entries 17-64 (possibly weak) *)
(* four.  Also: a key outside the table with all 16 round keys distinct    *)
(* exists among the one-bit neighbours (the criterion is not vacuous).     *)
(***************************************************************************)
EXTENDS DES, Catalogue, FiniteSets

VARIABLE step
Probe == <<1, 35, 69, 103, 137, 171, 205, 239>>
Distinct(k) == Cardinality({KS(k)[r] : r \in 1..16})
Expected(n) == IF n <= 4 THEN 1 ELSE IF n <= 16 THEN 2 ELSE 4
Init == step = 0
Next == step < 64 /\ step' = step + 1
Spec == Init /\ [][Next]_step

RoundKeyCount == step >= 1 => Distinct(DesWeakRaw[step]) = Expected(step)
WeakInvolution == (step >= 1 /\ step <= 4) =>
    LET ks == KS(DesWeakRaw[step]) IN Encipher(ks, Encipher(ks, Probe)) = Probe
SemiWeakPairs == (step >= 5 /\ step <= 16 /\ step % 2 = 1) =>
    Encipher(KS(DesWeakRaw[step]), Encipher(KS(DesWeakRaw[step + 1]), Probe)) = Probe
AllDifferent == Cardinality(DesWeakSet) = 64
\* the complementation property that Catalogue!Class / Flipped rely on holds in the L2 specification (C05):
\* DES(~k, ~p) = ~DES(k, p), checked on the table entries and their one-bit neighbours as sample keys
Compl(b) == [j \in 1..Len(b) |-> 255 - b[j]]
Complementation == step >= 1 =>
    LET k == [DesWeakRaw[step] EXCEPT ![3] = (DesWeakRaw[step][3] + 37 * step) % 256, ![6] = (DesWeakRaw[step][6] + 11 * step) % 256]
    IN /\ Encipher(KS(Compl(k)), Compl(Probe)) = Compl(Encipher(KS(k), Probe))
       /\ Decipher(KS(Compl(k)), Compl(Probe)) = Compl(Decipher(KS(k), Probe))
\* parity bits are ignored by the key schedule
ParityIgnored == step >= 1 =>
    LET k == DesWeakRaw[step]
        kp == [j \in 1..8 |-> IF k[j] % 2 = 0 THEN k[j] + 1 ELSE k[j] - 1]
    IN KS(k) = KS(kp)
\* flipping one key bit of a listed key leaves the table (the driver relies on these passing)
NeighbourNotWeak == step >= 1 =>
    LET k == DesWeakRaw[step]
        n == [k EXCEPT ![1] = IF k[1] >= 128 THEN k[1] - 128 ELSE k[1] + 128]
    IN ~DesWeak(n) /\ Distinct(n) > 4
=============================================================================
