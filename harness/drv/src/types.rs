//! The concrete type table (mirrors `spec/Catalogue.tla`).

use crate::cat::*;
use crate::{ct, ct_common, ct_dec, ct_enc};
use cipher::consts::*;

// ---- AES -------------------------------------------------------------------------------------------
ct!(aes::Aes128, "Aes128", "AES", both, from aes::Aes128Enc);
ct!(aes::Aes192, "Aes192", "AES", both, from aes::Aes192Enc);
ct!(aes::Aes256, "Aes256", "AES", both, from aes::Aes256Enc);
ct!(aes::Aes128Enc, "Aes128Enc", "AES", enc, [(aes::Aes128, "Aes128"), (aes::Aes128Dec, "Aes128Dec")]);
ct!(aes::Aes192Enc, "Aes192Enc", "AES", enc, [(aes::Aes192, "Aes192"), (aes::Aes192Dec, "Aes192Dec")]);
ct!(aes::Aes256Enc, "Aes256Enc", "AES", enc, [(aes::Aes256, "Aes256"), (aes::Aes256Dec, "Aes256Dec")]);
ct!(aes::Aes128Dec, "Aes128Dec", "AES", dec, from aes::Aes128Enc);
ct!(aes::Aes192Dec, "Aes192Dec", "AES", dec, from aes::Aes192Enc);
ct!(aes::Aes256Dec, "Aes256Dec", "AES", dec, from aes::Aes256Enc);

// ---- ARIA / Camellia / SM4 ------------------------------------------------------------------------
ct!(aria::Aria128, "Aria128", "ARIA", both);
ct!(aria::Aria192, "Aria192", "ARIA", both);
ct!(aria::Aria256, "Aria256", "ARIA", both);
ct!(camellia::Camellia128, "Camellia128", "Camellia", both);
ct!(camellia::Camellia192, "Camellia192", "Camellia", both);
ct!(camellia::Camellia256, "Camellia256", "Camellia", both);
ct!(sm4::Sm4, "Sm4", "SM4", both);

// ---- BelT / Kuznyechik / Magma ---------------------------------------------------------------------
ct!(belt_block::BeltBlock, "BeltBlock", "Belt", both);
ct!(kuznyechik::Kuznyechik, "Kuznyechik", "Kuznyechik", both, from kuznyechik::KuznyechikEnc);
ct!(
    kuznyechik::KuznyechikEnc,
    "KuznyechikEnc",
    "Kuznyechik",
    enc,
    [(kuznyechik::Kuznyechik, "Kuznyechik"), (kuznyechik::KuznyechikDec, "KuznyechikDec")]
);
ct!(kuznyechik::KuznyechikDec, "KuznyechikDec", "Kuznyechik", dec, from kuznyechik::KuznyechikEnc);
ct!(magma::Magma, "Magma", "Magma", both);
ct!(magma::Gost89Test, "Gost89Test", "Magma", both);
ct!(magma::Gost89CryptoProA, "Gost89CryptoProA", "Magma", both);
ct!(magma::Gost89CryptoProB, "Gost89CryptoProB", "Magma", both);
ct!(magma::Gost89CryptoProC, "Gost89CryptoProC", "Magma", both);
ct!(magma::Gost89CryptoProD, "Gost89CryptoProD", "Magma", both);

/// User implementations of the public `Sbox` trait (C07 "programs" quantifier).
pub enum UserIdentity {}
impl magma::Sbox for UserIdentity {
    const NAME: &'static str = "UserIdentity";
    const SBOX: [[u8; 16]; 8] = [[0, 1, 2, 3, 4, 5, 6, 7, 8, 9, 10, 11, 12, 13, 14, 15]; 8];
}
/// A fixed pseudo-random bijective set (every row a permutation of 0..15, all rows different).
pub enum UserPerm {}
impl magma::Sbox for UserPerm {
    const NAME: &'static str = "UserPerm";
    const SBOX: [[u8; 16]; 8] = [
        [7, 12, 1, 10, 15, 4, 9, 2, 13, 6, 3, 0, 11, 14, 5, 8],
        [3, 14, 9, 0, 5, 10, 15, 12, 1, 6, 11, 8, 13, 2, 7, 4],
        [11, 2, 13, 4, 7, 14, 1, 8, 15, 10, 5, 12, 3, 6, 9, 0],
        [5, 0, 7, 2, 9, 12, 3, 14, 11, 4, 13, 6, 15, 8, 1, 10],
        [13, 8, 3, 6, 1, 0, 11, 10, 7, 2, 15, 14, 9, 12, 5, 4],
        [9, 6, 15, 12, 3, 8, 5, 0, 2, 11, 14, 1, 4, 7, 10, 13],
        [1, 4, 11, 14, 13, 2, 7, 6, 9, 0, 10, 3, 5, 15, 12, 8],
        [15, 10, 5, 8, 11, 6, 13, 4, 3, 12, 9, 2, 7, 0, 14, 1],
    ];
}
/// A non-bijective set (the 32-round network is still a permutation: Feistel).
pub enum UserNonBij {}
impl magma::Sbox for UserNonBij {
    const NAME: &'static str = "UserNonBij";
    const SBOX: [[u8; 16]; 8] = [
        [0, 0, 1, 1, 2, 2, 3, 3, 4, 4, 5, 5, 6, 6, 7, 7],
        [15, 15, 15, 15, 0, 0, 0, 0, 9, 9, 9, 9, 6, 6, 6, 6],
        [1, 3, 3, 7, 7, 7, 7, 15, 15, 15, 15, 15, 15, 15, 15, 0],
        [8, 8, 8, 8, 8, 8, 8, 8, 8, 8, 8, 8, 8, 8, 8, 9],
        [0, 1, 2, 3, 4, 5, 6, 7, 7, 6, 5, 4, 3, 2, 1, 0],
        [5, 5, 10, 10, 5, 5, 10, 10, 5, 5, 10, 10, 5, 5, 10, 10],
        [14, 13, 12, 11, 10, 9, 8, 7, 6, 5, 4, 3, 2, 1, 0, 0],
        [2, 2, 2, 3, 3, 3, 4, 4, 4, 5, 5, 5, 6, 6, 6, 7],
    ];
}
ct!(magma::Gost89<UserIdentity>, "Gost89UserIdentity", "Magma", both);
ct!(magma::Gost89<UserPerm>, "Gost89UserPerm", "Magma", both);
ct!(magma::Gost89<UserNonBij>, "Gost89UserNonBij", "Magma", both);

// ---- DES ------------------------------------------------------------------------------------------
ct!(des::Des, "Des", "DES", both);
ct!(des::TdesEde2, "TdesEde2", "DES", both);
ct!(des::TdesEde3, "TdesEde3", "DES", both);
ct!(des::TdesEee2, "TdesEee2", "DES", both);
ct!(des::TdesEee3, "TdesEee3", "DES", both);

// ---- misc -----------------------------------------------------------------------------------------
ct!(blowfish::Blowfish, "Blowfish", "Blowfish", both);
ct!(blowfish::BlowfishLE, "BlowfishLE", "Blowfish", both);
ct!(cast5::Cast5, "Cast5", "Cast5", both);
ct!(cast6::Cast6, "Cast6", "Cast6", both);
ct!(gift_cipher::Gift128, "Gift128", "Gift", both);
ct!(idea::Idea, "Idea", "Idea", both);
ct!(rc2::Rc2, "Rc2", "RC2", both);
ct!(serpent::Serpent, "Serpent", "Serpent", both);
ct!(twofish::Twofish, "Twofish", "Twofish", both);
ct!(xtea::Xtea, "Xtea", "Xtea", both);

// ---- Speck ----------------------------------------------------------------------------------------
ct!(speck_cipher::Speck32_64, "Speck32_64", "Speck", both);
ct!(speck_cipher::Speck48_72, "Speck48_72", "Speck", both);
ct!(speck_cipher::Speck48_96, "Speck48_96", "Speck", both);
ct!(speck_cipher::Speck64_96, "Speck64_96", "Speck", both);
ct!(speck_cipher::Speck64_128, "Speck64_128", "Speck", both);
ct!(speck_cipher::Speck96_96, "Speck96_96", "Speck", both);
ct!(speck_cipher::Speck96_144, "Speck96_144", "Speck", both);
ct!(speck_cipher::Speck128_128, "Speck128_128", "Speck", both);
ct!(speck_cipher::Speck128_192, "Speck128_192", "Speck", both);
ct!(speck_cipher::Speck128_256, "Speck128_256", "Speck", both);

// ---- Threefish --------------------------------------------------------------------------------------
ct!(threefish::Threefish256, "Threefish256", "Threefish", both);
ct!(threefish::Threefish512, "Threefish512", "Threefish", both);
ct!(threefish::Threefish1024, "Threefish1024", "Threefish", both);

// ---- RC5: type-level parameters, a fixed list of instantiations --------------------------------------
// the six with published vectors
ct!(rc5::RC5<u8, U12, U4>, "RC5_8_12_4", "RC5", both);
ct!(rc5::RC5<u16, U16, U8>, "RC5_16_16_8", "RC5", both);
ct!(rc5::RC5<u32, U12, U16>, "RC5_32_12_16", "RC5", both);
ct!(rc5::RC5<u32, U16, U16>, "RC5_32_16_16", "RC5", both);
ct!(rc5::RC5<u64, U24, U24>, "RC5_64_24_24", "RC5", both);
ct!(rc5::RC5<u128, U28, U32>, "RC5_128_28_32", "RC5", both);
// extremes of the round count
ct!(rc5::RC5<u32, U0, U16>, "RC5_32_0_16", "RC5", both);
ct!(rc5::RC5<u16, U255, U8>, "RC5_16_255_8", "RC5", both);
// extremes / odd values of the key length
ct!(rc5::RC5<u32, U12, U0>, "RC5_32_12_0", "RC5", both);
ct!(rc5::RC5<u32, U12, U1>, "RC5_32_12_1", "RC5", both);
ct!(rc5::RC5<u32, U12, U255>, "RC5_32_12_255", "RC5", both);
ct!(rc5::RC5<u32, U12, U7>, "RC5_32_12_7", "RC5", both);
ct!(rc5::RC5<u64, U12, U13>, "RC5_64_12_13", "RC5", both);
ct!(rc5::RC5<u128, U4, U5>, "RC5_128_4_5", "RC5", both);
ct!(rc5::RC5<u8, U1, U3>, "RC5_8_1_3", "RC5", both);
ct!(rc5::RC5<u16, U2, U1>, "RC5_16_2_1", "RC5", both);
ct!(rc5::RC5<u8, U255, U255>, "RC5_8_255_255", "RC5", both);
ct!(rc5::RC5<u128, U255, U16>, "RC5_128_255_16", "RC5", both);
ct!(rc5::RC5<u64, U0, U8>, "RC5_64_0_8", "RC5", both);
ct!(rc5::RC5<u16, U1, U0>, "RC5_16_1_0", "RC5", both);
ct!(rc5::RC5<u128, U12, U255>, "RC5_128_12_255", "RC5", both);
ct!(rc5::RC5<u64, U20, U9>, "RC5_64_20_9", "RC5", both);
ct!(rc5::RC5<u8, U0, U0>, "RC5_8_0_0", "RC5", both);
ct!(rc5::RC5<u16, U16, U3>, "RC5_16_16_3", "RC5", both);
// parameter values by their shape: three-digit numbers with interior / trailing zeros, neighbours of 128, odd and even round counts
ct!(rc5::RC5<u32, U100, U16>, "RC5_32_100_16", "RC5", both);
ct!(rc5::RC5<u32, U12, U104>, "RC5_32_12_104", "RC5", both);
ct!(rc5::RC5<u64, U205, U32>, "RC5_64_205_32", "RC5", both);
ct!(rc5::RC5<u16, U110, U200>, "RC5_16_110_200", "RC5", both);
ct!(rc5::RC5<u8, U127, U10>, "RC5_8_127_10", "RC5", both);
ct!(rc5::RC5<u32, U128, U16>, "RC5_32_128_16", "RC5", both);
ct!(rc5::RC5<u64, U126, U99>, "RC5_64_126_99", "RC5", both);
ct!(rc5::RC5<u16, U129, U101>, "RC5_16_129_101", "RC5", both);
ct!(rc5::RC5<u128, U209, U109>, "RC5_128_209_109", "RC5", both);
ct!(rc5::RC5<u32, U254, U8>, "RC5_32_254_8", "RC5", both);

macro_rules! table {
    ($($t:ty),* $(,)?) => {
        pub fn all_types() -> Vec<TypeOps> {
            vec![$(ops_of::<$t>()),*]
        }
    };
}
table!(
    aes::Aes128, aes::Aes192, aes::Aes256,
    aes::Aes128Enc, aes::Aes192Enc, aes::Aes256Enc,
    aes::Aes128Dec, aes::Aes192Dec, aes::Aes256Dec,
    aria::Aria128, aria::Aria192, aria::Aria256,
    camellia::Camellia128, camellia::Camellia192, camellia::Camellia256,
    sm4::Sm4,
    belt_block::BeltBlock,
    kuznyechik::Kuznyechik, kuznyechik::KuznyechikEnc, kuznyechik::KuznyechikDec,
    magma::Magma, magma::Gost89Test, magma::Gost89CryptoProA, magma::Gost89CryptoProB,
    magma::Gost89CryptoProC, magma::Gost89CryptoProD,
    magma::Gost89<UserIdentity>, magma::Gost89<UserPerm>, magma::Gost89<UserNonBij>,
    des::Des, des::TdesEde2, des::TdesEde3, des::TdesEee2, des::TdesEee3,
    blowfish::Blowfish, blowfish::BlowfishLE,
    cast5::Cast5, cast6::Cast6, gift_cipher::Gift128, idea::Idea, rc2::Rc2,
    serpent::Serpent, twofish::Twofish, xtea::Xtea,
    speck_cipher::Speck32_64, speck_cipher::Speck48_72, speck_cipher::Speck48_96,
    speck_cipher::Speck64_96, speck_cipher::Speck64_128, speck_cipher::Speck96_96,
    speck_cipher::Speck96_144, speck_cipher::Speck128_128, speck_cipher::Speck128_192,
    speck_cipher::Speck128_256,
    threefish::Threefish256, threefish::Threefish512, threefish::Threefish1024,
    rc5::RC5<u8, U12, U4>, rc5::RC5<u16, U16, U8>, rc5::RC5<u32, U12, U16>,
    rc5::RC5<u32, U16, U16>, rc5::RC5<u64, U24, U24>, rc5::RC5<u128, U28, U32>,
    rc5::RC5<u32, U0, U16>, rc5::RC5<u16, U255, U8>, rc5::RC5<u32, U12, U0>,
    rc5::RC5<u32, U12, U1>, rc5::RC5<u32, U12, U255>, rc5::RC5<u32, U12, U7>,
    rc5::RC5<u64, U12, U13>, rc5::RC5<u128, U4, U5>, rc5::RC5<u8, U1, U3>, rc5::RC5<u16, U2, U1>,
    rc5::RC5<u8, U255, U255>, rc5::RC5<u128, U255, U16>, rc5::RC5<u64, U0, U8>, rc5::RC5<u16, U1, U0>, rc5::RC5<u128, U12, U255>, rc5::RC5<u64, U20, U9>, rc5::RC5<u8, U0, U0>, rc5::RC5<u16, U16, U3>,
    rc5::RC5<u32, U100, U16>, rc5::RC5<u32, U12, U104>, rc5::RC5<u64, U205, U32>, rc5::RC5<u16, U110, U200>, rc5::RC5<u8, U127, U10>, rc5::RC5<u32, U128, U16>, rc5::RC5<u64, U126, U99>, rc5::RC5<u16, U129, U101>, rc5::RC5<u128, U209, U109>, rc5::RC5<u32, U254, U8>,
);

/// The eight 4-bit tables of a Gost89 type, flattened (8 x 16), for the trace (`x` field).
pub fn sbox_of(name: &str) -> Option<Vec<u8>> {
    use magma::Sbox;
    // bundled sets are not nameable (private module); they are pinned in the spec by name.
    let t: [[u8; 16]; 8] = match name {
        "Gost89UserIdentity" => UserIdentity::SBOX,
        "Gost89UserPerm" => UserPerm::SBOX,
        "Gost89UserNonBij" => UserNonBij::SBOX,
        _ => return None,
    };
    Some(t.iter().flatten().copied().collect())
}

/// Constructors that take something besides the key.  `via`: "tweak", "tweak_u64", "eff".
pub fn new_extra(name: &str, via: &str, key: &[u8], extra: &[u8]) -> Option<Box<dyn Inst>> {
    fn words(b: &[u8]) -> Vec<u64> {
        b.chunks_exact(8).map(|c| u64::from_le_bytes(c.try_into().unwrap())).collect()
    }
    macro_rules! tf {
        ($t:ty, $nw:expr) => {{
            if via == "tweak" {
                let k: &[u8; $nw * 8] = key.try_into().ok()?;
                let t: &[u8; 16] = extra.try_into().ok()?;
                Some(Box::new(W(<$t>::new_with_tweak(k, t))) as Box<dyn Inst>)
            } else if via == "tweak_u64" {
                let k: [u64; $nw] = words(key).try_into().ok()?;
                let t: [u64; 2] = words(extra).try_into().ok()?;
                Some(Box::new(W(<$t>::new_with_tweak_u64(&k, &t))) as Box<dyn Inst>)
            } else {
                None
            }
        }};
    }
    match name {
        "Threefish256" => tf!(threefish::Threefish256, 4),
        "Threefish512" => tf!(threefish::Threefish512, 8),
        "Threefish1024" => tf!(threefish::Threefish1024, 16),
        "Rc2" if via == "eff" => {
            let eff = u16::from_le_bytes(extra.try_into().ok()?) as usize;
            Some(Box::new(W(rc2::Rc2::new_with_eff_key_len(key, eff))))
        }
        _ => None,
    }
}

/// Threefish u64 entry points on a fresh instance (key, tweak): returns output words as LE bytes.
pub fn threefish_u64(name: &str, key: &[u8], tweak: &[u8], dir: Dir, block: &[u8]) -> Option<Vec<u8>> {
    fn words(b: &[u8]) -> Vec<u64> {
        b.chunks_exact(8).map(|c| u64::from_le_bytes(c.try_into().unwrap())).collect()
    }
    macro_rules! tf {
        ($t:ty, $nw:expr) => {{
            let k: [u64; $nw] = words(key).try_into().ok()?;
            let t: [u64; 2] = words(tweak).try_into().ok()?;
            let c = <$t>::new_with_tweak_u64(&k, &t);
            let mut b: [u64; $nw] = words(block).try_into().ok()?;
            match dir {
                Dir::Enc => c.encrypt_block_u64(&mut b),
                Dir::Dec => c.decrypt_block_u64(&mut b),
            }
            Some(b.iter().flat_map(|w| w.to_le_bytes()).collect())
        }};
    }
    match name {
        "Threefish256" => tf!(threefish::Threefish256, 4),
        "Threefish512" => tf!(threefish::Threefish512, 8),
        "Threefish1024" => tf!(threefish::Threefish1024, 16),
        _ => None,
    }
}
