--------------------------- MODULE Conf_Camellia ----------------------------
EXTENDS Camellia, Json, IOUtils
VARIABLES tpos, inst
Rec == ndJsonDeserialize(IOEnv.TRACE)
OSched(t, k, x) == CamelliaSched(t, k, x)
OEnc(ks, b) == CamelliaEnc(ks, b)
ODec(ks, b) == CamelliaDec(ks, b)
ExtraKinds == {}
INSTANCE ConfBase
=============================================================================
