----------------------------- MODULE Conf_Cast5 -----------------------------
EXTENDS Cast5, Json, IOUtils
VARIABLES tpos, inst
Rec == ndJsonDeserialize(IOEnv.TRACE)
OSched(t, k, x) == Cast5Sched(t, k, x)
OEnc(ks, b) == Cast5Enc(ks, b)
ODec(ks, b) == Cast5Dec(ks, b)
ExtraKinds == {}
INSTANCE ConfBase
=============================================================================
