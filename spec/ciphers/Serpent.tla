------------------------------ MODULE Serpent ------------------------------
(***************************************************************************)
(* Serpent (Anderson, Biham, Knudsen: "Serpent: A Proposal for the         *)
(* Advanced Encryption Standard", 1998), written from the submission in    *)
(* its bitslice form (section 3 "An Efficient Implementation"): the state  *)
(* is four 32-bit words X0..X3; bit j of X0..X3 forms the j-th S-box       *)
(* input nibble, X0 least significant; no IP/FP is needed in this form.    *)
(*                                                                         *)
(*  - the eight 4-bit S-boxes S0..S7 are pinned as the paper's 16-entry    *)
(*    tables (appendix A.5); the inverses are computed with InvPerm;       *)
(*  - key padding to 256 bits: append one 1 bit, then zeros (section 4);   *)
(*  - prekeys w_i = (w_{i-8} xor w_{i-5} xor w_{i-3} xor w_{i-1} xor phi   *)
(*    xor i) <<< 11, phi = 0x9e3779b9;                                     *)
(*  - round keys K_i = S_{(3 - i) mod 8}(w_{4i} .. w_{4i+3}), i = 0..32;   *)
(*  - R_i(X) = LT(S_{i mod 8}(X xor K_i)) for i = 0..30,                   *)
(*    R_31(X) = S_7(X xor K_31) xor K_32;                                  *)
(*  - LT: the rotations 13, 3, 1, 7, 5, 22 and the shifts 3, 7.            *)
(*  Decryption is the exact inverse (inverse S-boxes, inverse LT).         *)
(*                                                                         *)
(* Byte convention: that of the NESSIE test vectors (the one every current *)
(* library uses): key bytes k[0..3] are word w_{-8} little-endian, block   *)
(* bytes b[0..3] are X0 little-endian.  With it, the padding bit is the    *)
(* byte 0x01 directly after the key bytes.                                 *)
(*                                                                         *)
(* A 32-bit word is two 16-bit limbs <<lo, hi>> (Words.tla).  The bitslice *)
(* S-box layer is evaluated four columns at a time: the same hex digit of  *)
(* X0..X3 is bit-interleaved (Spread) into a 16-bit number whose four      *)
(* nibbles are four S-box inputs; each goes through the 16-entry table;    *)
(* the outputs are de-interleaved again.                                   *)
(*                                                                         *)
(* Known answers (spec/kat/Serpent.ndjson): NESSIE verified test vectors   *)
(* Serpent-128-128 / -192-128 / -256-128 (as bundled in                    *)
(* /repo/serpent/tests/data/*.blb): per key size set 1 vectors 0, 1 and    *)
(* the last, set 2 vectors 0 and 127, set 3 vectors 0 and 255, set 4       *)
(* vectors 0 and 1; each checked in both directions.                       *)
(***************************************************************************)
EXTENDS Naturals, Sequences, Bitwise, TLC, Words, GF256

\* ------------------------------------------------ S-boxes (appendix A.5)
SBoxRows == <<
    <<3, 8, 15, 1, 10, 6, 5, 11, 14, 13, 4, 2, 7, 0, 9, 12>>,     \* S0
    <<15, 12, 2, 7, 9, 0, 5, 10, 1, 11, 14, 8, 6, 13, 3, 4>>,     \* S1
    <<8, 6, 7, 9, 3, 12, 10, 15, 13, 1, 14, 4, 0, 11, 5, 2>>,     \* S2
    <<0, 15, 11, 8, 12, 9, 6, 3, 13, 1, 2, 4, 10, 7, 5, 14>>,     \* S3
    <<1, 15, 8, 3, 12, 0, 11, 6, 2, 5, 4, 10, 9, 14, 7, 13>>,     \* S4
    <<15, 5, 2, 11, 4, 10, 9, 12, 0, 3, 14, 8, 13, 6, 7, 1>>,     \* S5
    <<7, 2, 12, 5, 8, 4, 6, 11, 14, 9, 1, 15, 13, 3, 10, 0>>,     \* S6
    <<1, 13, 15, 0, 14, 8, 2, 11, 7, 4, 12, 10, 9, 3, 5, 6>> >>   \* S7
\* S[s] and SInv[s], s in 0..7, as functions on 0..15
S    == TLCEval([s \in 0..7 |-> TLCEval([x \in 0..15 |-> SBoxRows[s + 1][x + 1]])])
SInv == TLCEval([s \in 0..7 |-> InvPerm(S[s], 16)])
ASSUME \A s \in 0..7 : IsPerm(S[s], 16)

\* ----------------------------------------------- bitslice S-box layer
\* Spread[n]: bit i of the nibble n moved to bit 4i
Spread == TLCEval([n \in 0..15 |->
             (n % 2) + 16 * ((n \div 2) % 2) + 256 * ((n \div 4) % 2) + 4096 * (n \div 8)])
\* SpreadOf(t)[n] = Spread[t[n]]: the S-box output with its bit i at bit 4i
SpreadOf(t) == TLCEval([n \in 0..15 |-> Spread[t[n]]])
SSp    == TLCEval([s \in 0..7 |-> SpreadOf(S[s])])
SInvSp == TLCEval([s \in 0..7 |-> SpreadOf(SInv[s])])

Hex(v, p) == (v \div Pow2(4 * p)) % 16        \* hex digit p of a 16-bit limb

\* Four columns at once: hex digit p of limb h of X0..X3 (a, b, c, d).  The
\* interleaved number v = Spread[a] + 2 Spread[b] + 4 Spread[c] + 8 Spread[d] has
\* as hex digit j the S-box input nibble of column j (bit j of a, b, c, d; X0
\* least significant).  The result has as hex digit i the four bits (columns
\* 0..3) of output word Y_i.
Cols(tsp, X, h, p) ==
    LET v == Spread[Hex(X[1][h], p)] + 2 * Spread[Hex(X[2][h], p)]
           + 4 * Spread[Hex(X[3][h], p)] + 8 * Spread[Hex(X[4][h], p)]
    IN tsp[v % 16] + 2 * tsp[(v \div 16) % 16]
       + 4 * tsp[(v \div 256) % 16] + 8 * tsp[v \div 4096]

\* apply the S-box (given by its spread table tsp) to all 32 columns of X = <<X0,X1,X2,X3>>
SLayer(tsp, X) ==
    LET W == TLCEval([q \in 0..7 |-> Cols(tsp, X, (q \div 4) + 1, q % 4)])
        Limb(i, h) == LET o == 4 * (h - 1) IN
                      Hex(W[o], i) + 16 * Hex(W[o + 1], i)
                      + 256 * Hex(W[o + 2], i) + 4096 * Hex(W[o + 3], i)
    IN TLCEval([i \in 1..4 |-> <<Limb(i - 1, 1), Limb(i - 1, 2)>>])

\* ------------------------------------------------- linear transformation
Rol(w, r) == RotLW(65536, w, r)
Ror(w, r) == RotRW(65536, w, r)
Shl(w, r) == ShLW(65536, w, r)
X3W(a, b, c) == <<(a[1] ^^ b[1]) ^^ c[1], (a[2] ^^ b[2]) ^^ c[2]>>

LT(X) ==
    LET a0 == Rol(X[1], 13)
        a2 == Rol(X[3], 3)
        a1 == X3W(X[2], a0, a2)
        a3 == X3W(X[4], a2, Shl(a0, 3))
        b1 == Rol(a1, 1)
        b3 == Rol(a3, 7)
        b0 == X3W(a0, b1, b3)
        b2 == X3W(a2, b3, Shl(b1, 7))
    IN TLCEval(<<Rol(b0, 5), b1, Rol(b2, 22), b3>>)

InvLT(X) ==
    LET b2 == Ror(X[3], 22)
        b0 == Ror(X[1], 5)
        b1 == X[2]
        b3 == X[4]
        a2 == X3W(b2, b3, Shl(b1, 7))
        a0 == X3W(b0, b1, b3)
        a3 == Ror(b3, 7)
        a1 == Ror(b1, 1)
        c3 == X3W(a3, a2, Shl(a0, 3))
        c1 == X3W(a1, a0, a2)
    IN TLCEval(<<Ror(a0, 13), c1, Ror(a2, 3), c3>>)

XorState(X, K) == TLCEval([i \in 1..4 |-> <<X[i][1] ^^ K[i][1], X[i][2] ^^ K[i][2]>>])

\* ------------------------------------------------------------ key schedule
Phi == <<31161, 40503>>       \* 0x9e3779b9 = <<0x79b9, 0x9e37>>

\* section 4: short keys are padded with one 1 bit and then zeros up to 256 bits
PadKey(key) ==
    IF Len(key) = 32 THEN key
    ELSE TLCEval([i \in 1..32 |-> IF i <= Len(key) THEN key[i]
                                  ELSE IF i = Len(key) + 1 THEN 1 ELSE 0])

RECURSIVE PreKeys(_, _)
\* ws[j] = w_{j-9}: ws[1..8] = w_{-8}..w_{-1}; extends up to w_131
PreKeys(ws, i) ==
    IF i > 131 THEN ws
    ELSE LET j == i + 9
             a == ws[j - 8]  b == ws[j - 5]  c == ws[j - 3]  d == ws[j - 1]
             x == <<(((a[1] ^^ b[1]) ^^ (c[1] ^^ d[1])) ^^ Phi[1]) ^^ i,
                    ((a[2] ^^ b[2]) ^^ (c[2] ^^ d[2])) ^^ Phi[2]>>
         IN PreKeys(Append(ws, Rol(x, 11)), i + 1)

\* round keys K_0..K_32 (K[i+1] = K_i), each <<k_{4i}, .., k_{4i+3}>>
KeySchedule(key) ==
    LET kb == PadKey(key)
        w0 == LE16(kb)                                   \* 16 limbs
        ws == PreKeys([j \in 1..8 |-> <<w0[2 * j - 1], w0[2 * j]>>], 0)
        W(i) == ws[i + 9]
    IN TLCEval([r \in 1..33 |->
          LET i == r - 1 IN
          SLayer(SSp[(35 - i) % 8], <<W(4 * i), W(4 * i + 1), W(4 * i + 2), W(4 * i + 3)>>)])

\* ------------------------------------------------------------- the cipher
WordsOf(b) == LET l == LE16(b) IN <<<<l[1], l[2]>>, <<l[3], l[4]>>, <<l[5], l[6]>>, <<l[7], l[8]>>>>
BytesOfState(X) == ToLE16(<<X[1][1], X[1][2], X[2][1], X[2][2], X[3][1], X[3][2], X[4][1], X[4][2]>>)

\* R_i for i in 0..30
EncRound(K, i, X) == LT(SLayer(SSp[i % 8], XorState(X, K[i + 1])))
RECURSIVE EncFrom(_, _, _)
EncFrom(K, i, X) == IF i > 30 THEN X ELSE EncFrom(K, i + 1, EncRound(K, i, X))
Encrypt(K, in) ==
    LET X31 == EncFrom(K, 0, WordsOf(in))
        Y   == XorState(SLayer(SSp[7], XorState(X31, K[32])), K[33])      \* R_31
    IN BytesOfState(Y)

\* inverse of R_i for i in 0..30
DecRound(K, i, X) == XorState(SLayer(SInvSp[i % 8], InvLT(X)), K[i + 1])
RECURSIVE DecFrom(_, _, _)
DecFrom(K, i, X) == IF i < 0 THEN X ELSE DecFrom(K, i - 1, DecRound(K, i, X))
Decrypt(K, in) ==
    LET X31 == XorState(SLayer(SInvSp[7], XorState(WordsOf(in), K[33])), K[32])
    IN BytesOfState(DecFrom(K, 30, X31))

\* ------------------------------------------------- conformance interface
SerpentSched(type, key, x) == KeySchedule(key)
SerpentEnc(ks, in) == Encrypt(ks, in)
SerpentDec(ks, in) == Decrypt(ks, in)
=============================================================================
