//! `threads` (C15): several threads started on a barrier share instances and construct their own.
//! Run in a fresh process so that the very first AES use races on the CPU-feature cache.

use super::*;
use std::sync::{Arc, Barrier};

struct Shared(Box<dyn Inst>);
// Sharing is only done when the concrete type is Sync (checked through the `marker` event, which the
// trace specification requires to be true); the wrapper exists so that the driver compiles regardless.
unsafe impl Sync for Shared {}
unsafe impl Send for Shared {}

pub fn run(cx: &mut Ctx, args: &Args, rng: &mut Rng) -> i32 {
    let nthreads = args.num("threads", 4) as usize;
    let iters = args.num("iters", 6) as usize;
    let sel = cx.select(args);
    cx.reset("threads");
    // compile-time facts
    for &ti in &sel {
        let t = &cx.types[ti];
        let v = json!({"ev":"marker","type":t.name,"send":(t.send)(),"sync":(t.sync)()});
        cx.emit(v);
    }
    // choose keys/blocks up front (no construction yet: the first construction happens in the threads)
    struct Plan {
        ti: usize,
        key: Vec<u8>,
        blocks: Vec<Vec<u8>>,
    }
    let plans: Vec<Plan> = sel
        .iter()
        .map(|&ti| {
            let t = &cx.types[ti];
            let lens = key_lens(t, false);
            let len = lens[rng.below(lens.len())];
            Plan { ti, key: rng.bytes(len), blocks: (0..3).map(|_| rng.bytes(t.bs)).collect() }
        })
        .collect();
    let plans = Arc::new(plans);
    let barrier = Arc::new(Barrier::new(nthreads));
    // ids: thread th uses ids th*100000 + n
    let out = cx.out;
    let cfg = cx.cfg.clone();
    let (tx, rx) = std::sync::mpsc::channel::<(usize, Shared)>();
    let rx = Arc::new(std::sync::Mutex::new(rx));
    let results: Vec<Vec<Value>> = std::thread::scope(|scope| {
        let mut handles = Vec::new();
        for th in 0..nthreads {
            let plans = plans.clone();
            let barrier = barrier.clone();
            let cfg = cfg.clone();
            let tx = tx.clone();
            let rx = rx.clone();
            let seed = rng.next();
            handles.push(scope.spawn(move || {
                let mut r = Rng::new(seed);
                let mut lcx = Ctx { out, next_id: (th as u64 + 1) * 100_000, run: 0, cfg, types: types::all_types(), buf: Some(Vec::new()) };
                barrier.wait();
                for it in 0..iters {
                    for p in plans.iter() {
                        // per-thread construction (races on detection the first time)
                        let Some((id, inst)) = lcx.construct(p.ti, "slice", &p.key, "thread") else { continue };
                        for b in &p.blocks {
                            if let Some(c) = lcx.one(id, inst.as_ref(), Dir::Enc, Shape::ALL[r.below(3)], b) {
                                lcx.one(id, inst.as_ref(), Dir::Dec, Shape::ALL[r.below(3)], &c);
                            }
                            lcx.one(id, inst.as_ref(), Dir::Dec, Shape::B2b, b);
                        }
                        let par = inst.par_e().or(inst.par_d()).unwrap_or(1);
                        let n = par + 1;
                        let data: Vec<u8> = (0..n).flat_map(|j| p.blocks[j % p.blocks.len()].clone()).collect();
                        lcx.many(id, inst.as_ref(), Dir::Enc, Shape::B2b, &data, 0, 0, None);
                        lcx.many(id, inst.as_ref(), Dir::Dec, Shape::B2b, &data, 0, 0, None);
                        // hand the instance over to whichever thread picks it up (Send), use a received one
                        if it % 2 == 0 {
                            let _ = tx.send((p.ti, Shared(inst)));
                            lcx.emit(json!({"ev":"send","id":id}));
                        } else {
                            lcx.drop_inst(id, inst);
                        }
                        let got = rx.lock().unwrap().try_recv().ok();
                        if let Some((pti, sh)) = got {
                            // the received instance has an id unknown to this thread: log under a fresh id as
                            // a `recv` of the same type/key (the plan fixes the key per type)
                            let pp = plans.iter().find(|q| q.ti == pti).unwrap();
                            let rid = lcx.fresh_id();
                            lcx.emit(json!({"ev":"new","id":rid,"type":lcx.types[pti].name,"via":"recv","key":pp.key,"x":types::sbox_of(lcx.types[pti].name).unwrap_or_default(),"out":"ok","kc":"recv"}));
                            for b in &pp.blocks {
                                lcx.one(rid, sh.0.as_ref(), Dir::Enc, Shape::B2b, b);
                                lcx.one(rid, sh.0.as_ref(), Dir::Dec, Shape::B2b, b);
                            }
                            lcx.drop_inst(rid, sh.0);
                        }
                    }
                }
                lcx.buf.take().unwrap()
            }));
        }
        drop(tx);
        handles.into_iter().map(|h| h.join().unwrap_or_default()).collect()
    });
    for (th, evs) in results.into_iter().enumerate() {
        for mut e in evs {
            e["th"] = json!(th);
            cx.emit(e);
        }
    }
    // leftovers in the channel are dropped here
    while let Ok((_, sh)) = rx.lock().unwrap().try_recv() {
        drop(sh);
    }
    // phase 2: shared `&cipher` used by all threads at once
    let mut shared: Vec<(usize, u64, Shared)> = Vec::new();
    for p in plans.iter() {
        if !(cx.types[p.ti].sync)() {
            continue;
        }
        if let Some((id, inst)) = cx.construct(p.ti, "slice", &p.key, "shared") {
            shared.push((p.ti, id, Shared(inst)));
        }
    }
    let shared = Arc::new(shared);
    let barrier = Arc::new(Barrier::new(nthreads));
    let results: Vec<Vec<Value>> = std::thread::scope(|scope| {
        let mut hs = Vec::new();
        for th in 0..nthreads {
            let shared = shared.clone();
            let plans = plans.clone();
            let barrier = barrier.clone();
            let cfg = cx.cfg.clone();
            let seed = rng.next();
            hs.push(scope.spawn(move || {
                let mut r = Rng::new(seed);
                let mut lcx = Ctx { out, next_id: (th as u64 + 1) * 100_000 + 50_000, run: 0, cfg, types: types::all_types(), buf: Some(Vec::new()) };
                barrier.wait();
                for _ in 0..iters {
                    for (pti, id, sh) in shared.iter() {
                        let pp = plans.iter().find(|q| q.ti == *pti).unwrap();
                        let b = if r.below(2) == 0 { pp.blocks[r.below(pp.blocks.len())].clone() } else { r.bytes(sh.0.bs()) };
                        if let Some(c) = lcx.one(*id, sh.0.as_ref(), Dir::Enc, Shape::ALL[r.below(3)], &b) {
                            lcx.one(*id, sh.0.as_ref(), Dir::Dec, Shape::B2b, &c);
                        }
                        lcx.one(*id, sh.0.as_ref(), Dir::Dec, Shape::B2b, &b);
                        let par = sh.0.par_e().or(sh.0.par_d()).unwrap_or(1);
                        let data: Vec<u8> = (0..par + 2).flat_map(|j| pp.blocks[j % pp.blocks.len()].clone()).collect();
                        lcx.many(*id, sh.0.as_ref(), Dir::Enc, Shape::B2b, &data, r.below(16), r.below(16), None);
                    }
                }
                lcx.buf.take().unwrap()
            }));
        }
        hs.into_iter().map(|h| h.join().unwrap_or_default()).collect()
    });
    for (th, evs) in results.into_iter().enumerate() {
        for mut e in evs {
            e["th"] = json!(th);
            cx.emit(e);
        }
    }
    // phase 3: first-use race.  Many fresh shared instances; for each one all threads pass a spin barrier and make
    // their very first call (a decryption if the type can decrypt) on it at the same moment: lazily derived
    // per-instance state must not be observable half-built.
    let rounds = args.num("race-rounds", 24) as usize;
    let mut race: Vec<(usize, u64, Shared)> = Vec::new();
    for p in plans.iter() {
        if !(cx.types[p.ti].sync)() {
            continue;
        }
        for _ in 0..rounds {
            if let Some((id, inst)) = cx.construct(p.ti, "slice", &p.key, "race") {
                race.push((p.ti, id, Shared(inst)));
            }
        }
    }
    let race = Arc::new(race);
    let gate = Arc::new(std::sync::atomic::AtomicUsize::new(0));
    let results: Vec<Vec<Value>> = std::thread::scope(|scope| {
        let mut hs = Vec::new();
        for th in 0..nthreads {
            let race = race.clone();
            let plans = plans.clone();
            let gate = gate.clone();
            let cfg = cx.cfg.clone();
            hs.push(scope.spawn(move || {
                let mut lcx = Ctx { out, next_id: (th as u64 + 1) * 100_000 + 80_000, run: 0, cfg, types: types::all_types(), buf: Some(Vec::new()) };
                for (k, (pti, id, sh)) in race.iter().enumerate() {
                    let pp = plans.iter().find(|q| q.ti == *pti).unwrap();
                    let b = &pp.blocks[0];
                    // spin barrier: everybody arrives, then everybody goes
                    gate.fetch_add(1, std::sync::atomic::Ordering::AcqRel);
                    while gate.load(std::sync::atomic::Ordering::Acquire) < (k + 1) * nthreads {
                        std::hint::spin_loop();
                    }
                    if lcx.one(*id, sh.0.as_ref(), Dir::Dec, Shape::B2b, b).is_none() {
                        lcx.one(*id, sh.0.as_ref(), Dir::Enc, Shape::B2b, b);
                    }
                }
                lcx.buf.take().unwrap()
            }));
        }
        hs.into_iter().map(|h| h.join().unwrap_or_default()).collect()
    });
    for (th, evs) in results.into_iter().enumerate() {
        for mut e in evs {
            e["th"] = json!(th);
            cx.emit(e);
        }
    }
    if let Ok(r) = Arc::try_unwrap(race) {
        for (_, id, s) in r {
            cx.drop_inst(id, s.0);
        }
    }
    // single-block observation of every lane input used above, on fresh instances (obligations)
    for p in plans.iter() {
        if let Some((id, inst)) = cx.construct(p.ti, "slice", &p.key, "fresh") {
            for b in &p.blocks {
                cx.one(id, inst.as_ref(), Dir::Enc, Shape::B2b, b);
                cx.one(id, inst.as_ref(), Dir::Dec, Shape::B2b, b);
            }
            cx.drop_inst(id, inst);
        }
    }
    if let Ok(sh) = Arc::try_unwrap(shared) {
        for (_, id, s) in sh {
            cx.drop_inst(id, s.0);
        }
    }
    cx.end();
    0
}
