-------------------------------- MODULE RC2 --------------------------------
(***************************************************************************)
(* RC2 as described in RFC 2268 (R. Rivest, "A Description of the RC2(r)   *)
(* Encryption Algorithm", March 1998).  64-bit block as four 16-bit words  *)
(* R[0..3] (little-endian), key of T = 1..128 bytes, effective key length  *)
(* T1 = 1..1024 bits.  16-bit words are plain naturals (they fit TLC's     *)
(* integers); all additions are reduced mod 2^16.                          *)
(*                                                                         *)
(* The trace's `x` field carries T1 as 2 bytes little-endian; an empty `x` *)
(* means T1 = 8 * T (what KeyInit::new_from_slice promises).               *)
(*                                                                         *)
(* PITABLE is pinned (digits of pi, no generating rule); numbers copied    *)
(* from /repo/rc2/src/consts.rs, laid out as the 16 x 16 hexadecimal table *)
(* of RFC 2268 section 2, checked to be a permutation and validated by the *)
(* KATs.                                                                   *)
(*                                                                         *)
(* KATs (spec/kat/RC2.ndjson): the eight test vectors of RFC 2268          *)
(* section 5 (with their explicit effective key lengths 63, 64, 64, 64,    *)
(* 64, 64, 128, 129), the 128-bit vector once more through the implicit    *)
(* effective length (empty x), and 12 random 16-byte-key vectors           *)
(* (T1 = 128) produced by OpenSSL 3.5 `openssl enc -rc2-ecb -nopad`        *)
(* (legacy provider); all cross-checked with a textbook python model.      *)
(***************************************************************************)
EXTENDS Naturals, Sequences, Bitwise, TLC, Words

PITABLE == TLCEval([i \in 0..255 |-> <<
    \hd9, \h78, \hf9, \hc4, \h19, \hdd, \hb5, \hed, \h28, \he9, \hfd, \h79, \h4a, \ha0, \hd8, \h9d,
    \hc6, \h7e, \h37, \h83, \h2b, \h76, \h53, \h8e, \h62, \h4c, \h64, \h88, \h44, \h8b, \hfb, \ha2,
    \h17, \h9a, \h59, \hf5, \h87, \hb3, \h4f, \h13, \h61, \h45, \h6d, \h8d, \h09, \h81, \h7d, \h32,
    \hbd, \h8f, \h40, \heb, \h86, \hb7, \h7b, \h0b, \hf0, \h95, \h21, \h22, \h5c, \h6b, \h4e, \h82,
    \h54, \hd6, \h65, \h93, \hce, \h60, \hb2, \h1c, \h73, \h56, \hc0, \h14, \ha7, \h8c, \hf1, \hdc,
    \h12, \h75, \hca, \h1f, \h3b, \hbe, \he4, \hd1, \h42, \h3d, \hd4, \h30, \ha3, \h3c, \hb6, \h26,
    \h6f, \hbf, \h0e, \hda, \h46, \h69, \h07, \h57, \h27, \hf2, \h1d, \h9b, \hbc, \h94, \h43, \h03,
    \hf8, \h11, \hc7, \hf6, \h90, \hef, \h3e, \he7, \h06, \hc3, \hd5, \h2f, \hc8, \h66, \h1e, \hd7,
    \h08, \he8, \hea, \hde, \h80, \h52, \hee, \hf7, \h84, \haa, \h72, \hac, \h35, \h4d, \h6a, \h2a,
    \h96, \h1a, \hd2, \h71, \h5a, \h15, \h49, \h74, \h4b, \h9f, \hd0, \h5e, \h04, \h18, \ha4, \hec,
    \hc2, \he0, \h41, \h6e, \h0f, \h51, \hcb, \hcc, \h24, \h91, \haf, \h50, \ha1, \hf4, \h70, \h39,
    \h99, \h7c, \h3a, \h85, \h23, \hb8, \hb4, \h7a, \hfc, \h02, \h36, \h5b, \h25, \h55, \h97, \h31,
    \h2d, \h5d, \hfa, \h98, \he3, \h8a, \h92, \hae, \h05, \hdf, \h29, \h10, \h67, \h6c, \hba, \hc9,
    \hd3, \h00, \he6, \hcf, \he1, \h9e, \ha8, \h2c, \h63, \h16, \h01, \h3f, \h58, \he2, \h89, \ha9,
    \h0d, \h38, \h34, \h1b, \hab, \h33, \hff, \hb0, \hbb, \h48, \h0c, \h5f, \hb9, \hb1, \hcd, \h2e,
    \hc5, \hf3, \hdb, \h47, \he5, \ha5, \h9c, \h77, \h0a, \ha6, \h20, \h68, \hfe, \h7f, \hc1, \had
    >>[i + 1]])
ASSUME {PITABLE[i] : i \in 0..255} = 0..255

\* ---------------------------------------------------------- key expansion
\* RFC 2268 section 2.  The key buffer L[0..127] is the tuple L with L[i] at
\* index i + 1.
\*
\*   for i = T, T+1, ..., 127 do  L[i] = PITABLE[L[i-1] + L[i-T]];   (mod 256)
RECURSIVE ExpandFwd(_, _)
ExpandFwd(L, T) ==
    IF Len(L) = 128 THEN L
    ELSE LET i == Len(L)        \* the index being filled
         IN ExpandFwd(Append(L, PITABLE[(L[i] + L[i - T + 1]) % 256]), T)

\*   L[128-T8] = PITABLE[L[128-T8] & TM];
\*   for i = 127-T8, ..., 0 do  L[i] = PITABLE[L[i+1] XOR L[i+T8]];
\* `tail` holds the final values of L[i+1 .. 127], so L[i+1] = tail[1] and
\* L[i+T8] = tail[T8].
RECURSIVE ExpandBack(_, _, _)
ExpandBack(tail, T8, i) ==
    IF i < 0 THEN tail
    ELSE ExpandBack(<<PITABLE[tail[1] ^^ tail[T8]]>> \o tail, T8, i - 1)

EffBits(key, x) == IF Len(x) = 0 THEN 8 * Len(key) ELSE x[1] + 256 * x[2]

KeyExpansion(key, T1) ==
    LET T  == Len(key)
        T8 == (T1 + 7) \div 8
        TM == 255 % Pow2(8 + T1 - 8 * T8)
        L1 == ExpandFwd(key, T)
        t0 == <<PITABLE[L1[128 - T8 + 1] & TM]>> \o SubSeq(L1, 128 - T8 + 2, 128)
        L  == ExpandBack(t0, T8, 127 - T8)
    \* K[i] = L[2i] + 256 * L[2i+1], K[i] stored at index i + 1
    IN TLCEval([i \in 1..64 |-> L[2*i - 1] + 256 * L[2*i]])

\* -------------------------------------------------------------- encryption
W == 65536
Add16(a, b) == (a + b) % W
Sub16(a, b) == (a + W - b) % W
Not16(a) == (W - 1) - a
Rol16(a, s) == ((a * Pow2(s)) % W) + (a \div Pow2(16 - s))
Ror16(a, s) == Rol16(a, 16 - s)

\* rotation amounts s[0..3]
S == <<1, 2, 3, 5>>

\* R is the tuple <<R[0], R[1], R[2], R[3]>>; At(R, i) = R[i mod 4] (indices
\* "are to be reduced modulo 4")
At(R, i) == R[((i + 4) % 4) + 1]
Upd(R, i, v) == [R EXCEPT ![i + 1] = v]

\* "Mix up R[i]":  R[i] = R[i] + K[j] + (R[i-1] & R[i-2]) + ((~R[i-1]) & R[i-3]);
\*                 j = j + 1;  R[i] = R[i] rol s[i];
MixUp(K, R, i, j) ==
    LET t == Add16(Add16(Add16(At(R, i), K[j + 1]), At(R, i - 1) & At(R, i - 2)),
                   Not16(At(R, i - 1)) & At(R, i - 3))
    IN Upd(R, i, Rol16(t, S[i + 1]))

\* a mixing round starting with key index j (uses K[j .. j+3])
MixRound(K, R, j) ==
    TLCEval(MixUp(K, MixUp(K, MixUp(K, MixUp(K, R, 0, j), 1, j + 1), 2, j + 2), 3, j + 3))

\* "Mash R[i]":  R[i] = R[i] + K[R[i-1] & 63];
Mash(K, R, i) == Upd(R, i, Add16(At(R, i), K[(At(R, i - 1) & 63) + 1]))
MashRound(K, R) == TLCEval(Mash(K, Mash(K, Mash(K, Mash(K, R, 0), 1), 2), 3))

\* n mixing rounds from round number r (j = 4r)
RECURSIVE MixRounds(_, _, _, _)
MixRounds(K, R, r, n) == IF n = 0 THEN R ELSE MixRounds(K, MixRound(K, R, 4 * r), r + 1, n - 1)

\* 5 mixing rounds, one mashing round, 6 mixing, one mashing, 5 mixing
Encrypt(K, R) ==
    LET a == MixRounds(K, R, 0, 5)
        b == MashRound(K, a)
        c == MixRounds(K, b, 5, 6)
        d == MashRound(K, c)
    IN MixRounds(K, d, 11, 5)

\* -------------------------------------------------------------- decryption
\* "R-Mix up R[i]":  R[i] = R[i] ror s[i];
\*                   R[i] = R[i] - K[j] - (R[i-1] & R[i-2]) - ((~R[i-1]) & R[i-3]);  j = j - 1;
RMixUp(K, R, i, j) ==
    LET t == Ror16(At(R, i), S[i + 1])
    IN Upd(R, i, Sub16(Sub16(Sub16(t, K[j + 1]), At(R, i - 1) & At(R, i - 2)),
                       Not16(At(R, i - 1)) & At(R, i - 3)))

\* an r-mixing round starting with key index j (uses K[j], K[j-1], K[j-2], K[j-3])
RMixRound(K, R, j) ==
    TLCEval(RMixUp(K, RMixUp(K, RMixUp(K, RMixUp(K, R, 3, j), 2, j - 1), 1, j - 2), 0, j - 3))

\* "R-Mash R[i]":  R[i] = R[i] - K[R[i-1] & 63];
RMash(K, R, i) == Upd(R, i, Sub16(At(R, i), K[(At(R, i - 1) & 63) + 1]))
RMashRound(K, R) == TLCEval(RMash(K, RMash(K, RMash(K, RMash(K, R, 3), 2), 1), 0))

\* n r-mixing rounds, the first one with j = 4r + 3
RECURSIVE RMixRounds(_, _, _, _)
RMixRounds(K, R, r, n) == IF n = 0 THEN R ELSE RMixRounds(K, RMixRound(K, R, 4 * r + 3), r - 1, n - 1)

\* j = 63; 5 r-mixing rounds, one r-mashing round, 6 r-mixing, one r-mashing, 5 r-mixing
Decrypt(K, R) ==
    LET a == RMixRounds(K, R, 15, 5)
        b == RMashRound(K, a)
        c == RMixRounds(K, b, 10, 6)
        d == RMashRound(K, c)
    IN RMixRounds(K, d, 4, 5)

\* ------------------------------------------------- conformance interface
\* the four words of a block are little-endian 16-bit quantities
RC2Sched(type, key, x) == KeyExpansion(key, EffBits(key, x))
RC2Enc(ks, in) == ToLE16(Encrypt(ks, LE16(in)))
RC2Dec(ks, in) == ToLE16(Decrypt(ks, LE16(in)))
=============================================================================
