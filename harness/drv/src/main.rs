#![allow(deprecated, dead_code, unused_imports, clippy::all)]
//! Trace-producing driver for the TLA+ conformance checks.  It drives the real code and records
//! NDJSON events; TLC (not this program) decides whether a trace is allowed by the specification.

mod cat;
mod drivers;
mod ev;
mod rng;
mod types;
mod zero;

use std::collections::HashMap;

pub struct Args {
    pub cmd: String,
    pub kv: HashMap<String, String>,
}
impl Args {
    pub fn get(&self, k: &str) -> Option<&str> {
        self.kv.get(k).map(|s| s.as_str())
    }
    pub fn num(&self, k: &str, d: u64) -> u64 {
        self.get(k).and_then(|s| s.parse().ok()).unwrap_or(d)
    }
    pub fn list(&self, k: &str) -> Vec<String> {
        self.get(k).map(|s| s.split(',').filter(|x| !x.is_empty()).map(|x| x.to_string()).collect()).unwrap_or_default()
    }
}

fn main() {
    let mut it = std::env::args().skip(1);
    let cmd = it.next().unwrap_or_else(|| "help".into());
    let mut kv = HashMap::new();
    while let Some(a) = it.next() {
        if let Some(k) = a.strip_prefix("--") {
            let v = it.next().unwrap_or_default();
            kv.insert(k.to_string(), v);
        }
    }
    let args = Args { cmd, kv };
    // panics of the code under test are data: keep the default hook quiet, but remember where the panic was raised so
    // that a panic of the driver's own code is never mistaken for one of the code under test
    std::panic::set_hook(Box::new(|info| {
        let loc = info.location().map(|l| format!("{}:{}", l.file(), l.line())).unwrap_or_default();
        ev::LAST_PANIC.with(|c| *c.borrow_mut() = loc);
    }));
    let out = ev::Out::new(args.get("out"));
    let rc = match std::panic::catch_unwind(std::panic::AssertUnwindSafe(|| drivers::run(&args, &out))) {
        Ok(rc) => rc,
        Err(_) => {
            let loc = ev::last_panic();
            out.flush();
            if ev::is_driver_location(&loc) {
                eprintln!("driver bug: panic in the driver's own code at {loc}");
                std::process::exit(2);
            }
            // a panic of the code under test outside any recorded call: the process "dies" (the runner turns this into an abort event)
            eprintln!("panic escaped from the code under test at {loc}");
            std::process::exit(101);
        }
    };
    out.flush();
    std::process::exit(rc);
}
