------------------------------ MODULE Conf_AES ------------------------------
EXTENDS AES, Json, IOUtils
VARIABLES l, inst
Rec == ndJsonDeserialize(IOEnv.TRACE)
OSched(t, k, x) == AESSched(t, k, x)
OEnc(ks, b) == AESEnc(ks, b)
ODec(ks, b) == AESDec(ks, b)
ExtraKinds == {}
INSTANCE ConfBase
=============================================================================
