------------------------------ MODULE Blowfish ------------------------------
(***************************************************************************)
(* Blowfish (B. Schneier, "Description of a New Variable-Length Key,       *)
(* 64-Bit Block Cipher (Blowfish)", FSE 1993) and the eksblowfish state    *)
(* primitives of bcrypt (N. Provos, D. Mazieres, "A Future-Adaptable       *)
(* Password Scheme", USENIX 1999), written from the papers.                *)
(*                                                                         *)
(* A 32-bit word is the pair <<lo16, hi16>> of 16-bit limbs (Words.tla     *)
(* convention: least significant limb first); TLC integers are 32-bit      *)
(* signed.  The subkeys are P = P1..P18 (a sequence of 18 words) and the   *)
(* four S-boxes S = <<S1, S2, S3, S4>>, each a sequence of 256 words       *)
(* (entry for byte a at index a + 1).                                      *)
(*                                                                         *)
(* Pinned table: the initial P-array and S-boxes are the hexadecimal       *)
(* digits of the fractional part of pi (P1 = 243F6A88, ...), 18 + 4*256    *)
(* words in the order P1..P18, S1[0..255], ..., S4[0..255].  The text      *)
(* between "BEGIN pi" and "END pi" is generated from                       *)
(* /repo/blowfish/src/consts.rs (the only offline copy) by taking its      *)
(* 1042 literals 0xHHHHLLLL in order of appearance and printing each as    *)
(* W(\HHHHH,\HLLLL), 4 per line (python: re.findall(r'0x([0-9a-f]{8})')).  *)
(* It is validated by the known-answer trace spec/kat/Blowfish.ndjson.     *)
(*                                                                         *)
(* Known answers (spec/kat/Blowfish.ndjson):                               *)
(*  - Schneier's vectors.txt (Eric Young's set): the 34 ECB vectors with   *)
(*    8-byte keys and the variable-key-length set (key = the first n bytes *)
(*    of F0E1D2C3B4A5968778695A4B3C2D1E0F0011223344556677, n = 1..24,      *)
(*    plaintext FEDCBA9876543210).  n = 4..24 run through the block-cipher *)
(*    constructor; n = 1..3 (not accepted by the Rust key type) through    *)
(*    the eksblowfish events init + expand.  (The 34 vectors are also the  *)
(*    content of /repo/blowfish/tests/data/blowfish.blb; all 24 variable-  *)
(*    length answers were reproduced with OpenSSL 3.5.)                    *)
(*  - 12 random 16-byte-key vectors computed by OpenSSL 3.5                *)
(*    (openssl enc -bf-ecb -nopad -K .. -provider legacy).                 *)
(*  - BlowfishLE: 22 of the vectors above with each 4-byte half of         *)
(*    plaintext and ciphertext byte-reversed.                              *)
(*  - one complete bcrypt computation (Provos-Mazieres fig. 3: salted      *)
(*    ExpandKey, 2^4 x (expand key, expand salt), 64 x 3 ECB encryptions   *)
(*    of "OrpheanBeholderScryDoubt"): password "Kk4DQuMMfZL9o", hash       *)
(*    $2b$04$cVWp4XaNU8a4v1uMRum2SO026BWLIoQMD/TXg5uZV.0P.uO8m3YEm (test   *)
(*    vector of pyca/bcrypt, reproduced with libcrypt's crypt_blowfish);   *)
(*    the last three encrypt events carry the 23 hash bytes.               *)
(*                                                                         *)
(* Theorems (checked on the known-answer trace by the "same" pseudo-event  *)
(* of Conf_Blowfish, which compares two instance states):                  *)
(*  T1  ExpandKey(InitState, <<>>, k) = BlowfishSched("Blowfish", k, <<>>) *)
(*      (init + expand(k) is ordinary keying);                             *)
(*  T2  ExpandKey(st, <<0,...,0>> (16 bytes), k) = ExpandKey(st, <<>>, k)  *)
(*      (a zero salt is no salt).                                          *)
(***************************************************************************)
EXTENDS Naturals, Sequences, Bitwise, TLC, Words
\* Bounded iteration ("for i = 1 to 16", "continue the process") is written with
\* FoldLeft(Op, x, <<a, b, ..., z>>) = Op(... Op(Op(x, a), b) ..., z) of the community
\* module SequencesExt.  TLC evaluates it by a Java loop, strictly and in a short
\* evaluation context; a RECURSIVE operator gives the same values but TLC's context
\* (a list walked at every reference to a module-level operator, "+" and "%"
\* included) grows with the recursion depth: measured 4 to 10 times slower.
LOCAL INSTANCE SequencesExt
\* the sequence <<lo, lo + 1, ..., hi>>
Upto(lo, hi) == TLCEval([i \in 1..(hi - lo + 1) |-> lo + i - 1])
RoundNumbers == Upto(1, 16)
ChainNumbers == Upto(0, 520)

\* ------------------------------------------------------------ 32-bit words
W(hi, lo) == <<lo, hi>>
Xor32(x, y) == <<x[1] ^^ y[1], x[2] ^^ y[2]>>
\* addition modulo 2^32
Add32(x, y) == LET lo == x[1] + y[1]
               IN <<lo % 65536, (x[2] + y[2] + (lo \div 65536)) % 65536>>
Zero32 == <<0, 0>>

\* ------------------------------------------------ BEGIN pi (generated text)
PiP == TLCEval(<<
    W(\H243F,\H6A88), W(\H85A3,\H08D3), W(\H1319,\H8A2E), W(\H0370,\H7344),
    W(\HA409,\H3822), W(\H299F,\H31D0), W(\H082E,\HFA98), W(\HEC4E,\H6C89),
    W(\H4528,\H21E6), W(\H38D0,\H1377), W(\HBE54,\H66CF), W(\H34E9,\H0C6C),
    W(\HC0AC,\H29B7), W(\HC97C,\H50DD), W(\H3F84,\HD5B5), W(\HB547,\H0917),
    W(\H9216,\HD5D9), W(\H8979,\HFB1B)>>)

PiS1 == TLCEval(<<
    W(\HD131,\H0BA6), W(\H98DF,\HB5AC), W(\H2FFD,\H72DB), W(\HD01A,\HDFB7),
    W(\HB8E1,\HAFED), W(\H6A26,\H7E96), W(\HBA7C,\H9045), W(\HF12C,\H7F99),
    W(\H24A1,\H9947), W(\HB391,\H6CF7), W(\H0801,\HF2E2), W(\H858E,\HFC16),
    W(\H6369,\H20D8), W(\H7157,\H4E69), W(\HA458,\HFEA3), W(\HF493,\H3D7E),
    W(\H0D95,\H748F), W(\H728E,\HB658), W(\H718B,\HCD58), W(\H8215,\H4AEE),
    W(\H7B54,\HA41D), W(\HC25A,\H59B5), W(\H9C30,\HD539), W(\H2AF2,\H6013),
    W(\HC5D1,\HB023), W(\H2860,\H85F0), W(\HCA41,\H7918), W(\HB8DB,\H38EF),
    W(\H8E79,\HDCB0), W(\H603A,\H180E), W(\H6C9E,\H0E8B), W(\HB01E,\H8A3E),
    W(\HD715,\H77C1), W(\HBD31,\H4B27), W(\H78AF,\H2FDA), W(\H5560,\H5C60),
    W(\HE655,\H25F3), W(\HAA55,\HAB94), W(\H5748,\H9862), W(\H63E8,\H1440),
    W(\H55CA,\H396A), W(\H2AAB,\H10B6), W(\HB4CC,\H5C34), W(\H1141,\HE8CE),
    W(\HA154,\H86AF), W(\H7C72,\HE993), W(\HB3EE,\H1411), W(\H636F,\HBC2A),
    W(\H2BA9,\HC55D), W(\H7418,\H31F6), W(\HCE5C,\H3E16), W(\H9B87,\H931E),
    W(\HAFD6,\HBA33), W(\H6C24,\HCF5C), W(\H7A32,\H5381), W(\H2895,\H8677),
    W(\H3B8F,\H4898), W(\H6B4B,\HB9AF), W(\HC4BF,\HE81B), W(\H6628,\H2193),
    W(\H61D8,\H09CC), W(\HFB21,\HA991), W(\H487C,\HAC60), W(\H5DEC,\H8032),
    W(\HEF84,\H5D5D), W(\HE985,\H75B1), W(\HDC26,\H2302), W(\HEB65,\H1B88),
    W(\H2389,\H3E81), W(\HD396,\HACC5), W(\H0F6D,\H6FF3), W(\H83F4,\H4239),
    W(\H2E0B,\H4482), W(\HA484,\H2004), W(\H69C8,\HF04A), W(\H9E1F,\H9B5E),
    W(\H21C6,\H6842), W(\HF6E9,\H6C9A), W(\H670C,\H9C61), W(\HABD3,\H88F0),
    W(\H6A51,\HA0D2), W(\HD854,\H2F68), W(\H960F,\HA728), W(\HAB51,\H33A3),
    W(\H6EEF,\H0B6C), W(\H137A,\H3BE4), W(\HBA3B,\HF050), W(\H7EFB,\H2A98),
    W(\HA1F1,\H651D), W(\H39AF,\H0176), W(\H66CA,\H593E), W(\H8243,\H0E88),
    W(\H8CEE,\H8619), W(\H456F,\H9FB4), W(\H7D84,\HA5C3), W(\H3B8B,\H5EBE),
    W(\HE06F,\H75D8), W(\H85C1,\H2073), W(\H401A,\H449F), W(\H56C1,\H6AA6),
    W(\H4ED3,\HAA62), W(\H363F,\H7706), W(\H1BFE,\HDF72), W(\H429B,\H023D),
    W(\H37D0,\HD724), W(\HD00A,\H1248), W(\HDB0F,\HEAD3), W(\H49F1,\HC09B),
    W(\H0753,\H72C9), W(\H8099,\H1B7B), W(\H25D4,\H79D8), W(\HF6E8,\HDEF7),
    W(\HE3FE,\H501A), W(\HB679,\H4C3B), W(\H976C,\HE0BD), W(\H04C0,\H06BA),
    W(\HC1A9,\H4FB6), W(\H409F,\H60C4), W(\H5E5C,\H9EC2), W(\H196A,\H2463),
    W(\H68FB,\H6FAF), W(\H3E6C,\H53B5), W(\H1339,\HB2EB), W(\H3B52,\HEC6F),
    W(\H6DFC,\H511F), W(\H9B30,\H952C), W(\HCC81,\H4544), W(\HAF5E,\HBD09),
    W(\HBEE3,\HD004), W(\HDE33,\H4AFD), W(\H660F,\H2807), W(\H192E,\H4BB3),
    W(\HC0CB,\HA857), W(\H45C8,\H740F), W(\HD20B,\H5F39), W(\HB9D3,\HFBDB),
    W(\H5579,\HC0BD), W(\H1A60,\H320A), W(\HD6A1,\H00C6), W(\H402C,\H7279),
    W(\H679F,\H25FE), W(\HFB1F,\HA3CC), W(\H8EA5,\HE9F8), W(\HDB32,\H22F8),
    W(\H3C75,\H16DF), W(\HFD61,\H6B15), W(\H2F50,\H1EC8), W(\HAD05,\H52AB),
    W(\H323D,\HB5FA), W(\HFD23,\H8760), W(\H5331,\H7B48), W(\H3E00,\HDF82),
    W(\H9E5C,\H57BB), W(\HCA6F,\H8CA0), W(\H1A87,\H562E), W(\HDF17,\H69DB),
    W(\HD542,\HA8F6), W(\H287E,\HFFC3), W(\HAC67,\H32C6), W(\H8C4F,\H5573),
    W(\H695B,\H27B0), W(\HBBCA,\H58C8), W(\HE1FF,\HA35D), W(\HB8F0,\H11A0),
    W(\H10FA,\H3D98), W(\HFD21,\H83B8), W(\H4AFC,\HB56C), W(\H2DD1,\HD35B),
    W(\H9A53,\HE479), W(\HB6F8,\H4565), W(\HD28E,\H49BC), W(\H4BFB,\H9790),
    W(\HE1DD,\HF2DA), W(\HA4CB,\H7E33), W(\H62FB,\H1341), W(\HCEE4,\HC6E8),
    W(\HEF20,\HCADA), W(\H3677,\H4C01), W(\HD07E,\H9EFE), W(\H2BF1,\H1FB4),
    W(\H95DB,\HDA4D), W(\HAE90,\H9198), W(\HEAAD,\H8E71), W(\H6B93,\HD5A0),
    W(\HD08E,\HD1D0), W(\HAFC7,\H25E0), W(\H8E3C,\H5B2F), W(\H8E75,\H94B7),
    W(\H8FF6,\HE2FB), W(\HF212,\H2B64), W(\H8888,\HB812), W(\H900D,\HF01C),
    W(\H4FAD,\H5EA0), W(\H688F,\HC31C), W(\HD1CF,\HF191), W(\HB3A8,\HC1AD),
    W(\H2F2F,\H2218), W(\HBE0E,\H1777), W(\HEA75,\H2DFE), W(\H8B02,\H1FA1),
    W(\HE5A0,\HCC0F), W(\HB56F,\H74E8), W(\H18AC,\HF3D6), W(\HCE89,\HE299),
    W(\HB4A8,\H4FE0), W(\HFD13,\HE0B7), W(\H7CC4,\H3B81), W(\HD2AD,\HA8D9),
    W(\H165F,\HA266), W(\H8095,\H7705), W(\H93CC,\H7314), W(\H211A,\H1477),
    W(\HE6AD,\H2065), W(\H77B5,\HFA86), W(\HC754,\H42F5), W(\HFB9D,\H35CF),
    W(\HEBCD,\HAF0C), W(\H7B3E,\H89A0), W(\HD641,\H1BD3), W(\HAE1E,\H7E49),
    W(\H0025,\H0E2D), W(\H2071,\HB35E), W(\H2268,\H00BB), W(\H57B8,\HE0AF),
    W(\H2464,\H369B), W(\HF009,\HB91E), W(\H5563,\H911D), W(\H59DF,\HA6AA),
    W(\H78C1,\H4389), W(\HD95A,\H537F), W(\H207D,\H5BA2), W(\H02E5,\HB9C5),
    W(\H8326,\H0376), W(\H6295,\HCFA9), W(\H11C8,\H1968), W(\H4E73,\H4A41),
    W(\HB347,\H2DCA), W(\H7B14,\HA94A), W(\H1B51,\H0052), W(\H9A53,\H2915),
    W(\HD60F,\H573F), W(\HBC9B,\HC6E4), W(\H2B60,\HA476), W(\H81E6,\H7400),
    W(\H08BA,\H6FB5), W(\H571B,\HE91F), W(\HF296,\HEC6B), W(\H2A0D,\HD915),
    W(\HB663,\H6521), W(\HE7B9,\HF9B6), W(\HFF34,\H052E), W(\HC585,\H5664),
    W(\H53B0,\H2D5D), W(\HA99F,\H8FA1), W(\H08BA,\H4799), W(\H6E85,\H076A)>>)

PiS2 == TLCEval(<<
    W(\H4B7A,\H70E9), W(\HB5B3,\H2944), W(\HDB75,\H092E), W(\HC419,\H2623),
    W(\HAD6E,\HA6B0), W(\H49A7,\HDF7D), W(\H9CEE,\H60B8), W(\H8FED,\HB266),
    W(\HECAA,\H8C71), W(\H699A,\H17FF), W(\H5664,\H526C), W(\HC2B1,\H9EE1),
    W(\H1936,\H02A5), W(\H7509,\H4C29), W(\HA059,\H1340), W(\HE418,\H3A3E),
    W(\H3F54,\H989A), W(\H5B42,\H9D65), W(\H6B8F,\HE4D6), W(\H99F7,\H3FD6),
    W(\HA1D2,\H9C07), W(\HEFE8,\H30F5), W(\H4D2D,\H38E6), W(\HF025,\H5DC1),
    W(\H4CDD,\H2086), W(\H8470,\HEB26), W(\H6382,\HE9C6), W(\H021E,\HCC5E),
    W(\H0968,\H6B3F), W(\H3EBA,\HEFC9), W(\H3C97,\H1814), W(\H6B6A,\H70A1),
    W(\H687F,\H3584), W(\H52A0,\HE286), W(\HB79C,\H5305), W(\HAA50,\H0737),
    W(\H3E07,\H841C), W(\H7FDE,\HAE5C), W(\H8E7D,\H44EC), W(\H5716,\HF2B8),
    W(\HB03A,\HDA37), W(\HF050,\H0C0D), W(\HF01C,\H1F04), W(\H0200,\HB3FF),
    W(\HAE0C,\HF51A), W(\H3CB5,\H74B2), W(\H2583,\H7A58), W(\HDC09,\H21BD),
    W(\HD191,\H13F9), W(\H7CA9,\H2FF6), W(\H9432,\H4773), W(\H22F5,\H4701),
    W(\H3AE5,\HE581), W(\H37C2,\HDADC), W(\HC8B5,\H7634), W(\H9AF3,\HDDA7),
    W(\HA944,\H6146), W(\H0FD0,\H030E), W(\HECC8,\HC73E), W(\HA475,\H1E41),
    W(\HE238,\HCD99), W(\H3BEA,\H0E2F), W(\H3280,\HBBA1), W(\H183E,\HB331),
    W(\H4E54,\H8B38), W(\H4F6D,\HB908), W(\H6F42,\H0D03), W(\HF60A,\H04BF),
    W(\H2CB8,\H1290), W(\H2497,\H7C79), W(\H5679,\HB072), W(\HBCAF,\H89AF),
    W(\HDE9A,\H771F), W(\HD993,\H0810), W(\HB38B,\HAE12), W(\HDCCF,\H3F2E),
    W(\H5512,\H721F), W(\H2E6B,\H7124), W(\H501A,\HDDE6), W(\H9F84,\HCD87),
    W(\H7A58,\H4718), W(\H7408,\HDA17), W(\HBC9F,\H9ABC), W(\HE94B,\H7D8C),
    W(\HEC7A,\HEC3A), W(\HDB85,\H1DFA), W(\H6309,\H4366), W(\HC464,\HC3D2),
    W(\HEF1C,\H1847), W(\H3215,\HD908), W(\HDD43,\H3B37), W(\H24C2,\HBA16),
    W(\H12A1,\H4D43), W(\H2A65,\HC451), W(\H5094,\H0002), W(\H133A,\HE4DD),
    W(\H71DF,\HF89E), W(\H1031,\H4E55), W(\H81AC,\H77D6), W(\H5F11,\H199B),
    W(\H0435,\H56F1), W(\HD7A3,\HC76B), W(\H3C11,\H183B), W(\H5924,\HA509),
    W(\HF28F,\HE6ED), W(\H97F1,\HFBFA), W(\H9EBA,\HBF2C), W(\H1E15,\H3C6E),
    W(\H86E3,\H4570), W(\HEAE9,\H6FB1), W(\H860E,\H5E0A), W(\H5A3E,\H2AB3),
    W(\H771F,\HE71C), W(\H4E3D,\H06FA), W(\H2965,\HDCB9), W(\H99E7,\H1D0F),
    W(\H803E,\H89D6), W(\H5266,\HC825), W(\H2E4C,\HC978), W(\H9C10,\HB36A),
    W(\HC615,\H0EBA), W(\H94E2,\HEA78), W(\HA5FC,\H3C53), W(\H1E0A,\H2DF4),
    W(\HF2F7,\H4EA7), W(\H361D,\H2B3D), W(\H1939,\H260F), W(\H19C2,\H7960),
    W(\H5223,\HA708), W(\HF713,\H12B6), W(\HEBAD,\HFE6E), W(\HEAC3,\H1F66),
    W(\HE3BC,\H4595), W(\HA67B,\HC883), W(\HB17F,\H37D1), W(\H018C,\HFF28),
    W(\HC332,\HDDEF), W(\HBE6C,\H5AA5), W(\H6558,\H2185), W(\H68AB,\H9802),
    W(\HEECE,\HA50F), W(\HDB2F,\H953B), W(\H2AEF,\H7DAD), W(\H5B6E,\H2F84),
    W(\H1521,\HB628), W(\H2907,\H6170), W(\HECDD,\H4775), W(\H619F,\H1510),
    W(\H13CC,\HA830), W(\HEB61,\HBD96), W(\H0334,\HFE1E), W(\HAA03,\H63CF),
    W(\HB573,\H5C90), W(\H4C70,\HA239), W(\HD59E,\H9E0B), W(\HCBAA,\HDE14),
    W(\HEECC,\H86BC), W(\H6062,\H2CA7), W(\H9CAB,\H5CAB), W(\HB2F3,\H846E),
    W(\H648B,\H1EAF), W(\H19BD,\HF0CA), W(\HA023,\H69B9), W(\H655A,\HBB50),
    W(\H4068,\H5A32), W(\H3C2A,\HB4B3), W(\H319E,\HE9D5), W(\HC021,\HB8F7),
    W(\H9B54,\H0B19), W(\H875F,\HA099), W(\H95F7,\H997E), W(\H623D,\H7DA8),
    W(\HF837,\H889A), W(\H97E3,\H2D77), W(\H11ED,\H935F), W(\H1668,\H1281),
    W(\H0E35,\H8829), W(\HC7E6,\H1FD6), W(\H96DE,\HDFA1), W(\H7858,\HBA99),
    W(\H57F5,\H84A5), W(\H1B22,\H7263), W(\H9B83,\HC3FF), W(\H1AC2,\H4696),
    W(\HCDB3,\H0AEB), W(\H532E,\H3054), W(\H8FD9,\H48E4), W(\H6DBC,\H3128),
    W(\H58EB,\HF2EF), W(\H34C6,\HFFEA), W(\HFE28,\HED61), W(\HEE7C,\H3C73),
    W(\H5D4A,\H14D9), W(\HE864,\HB7E3), W(\H4210,\H5D14), W(\H203E,\H13E0),
    W(\H45EE,\HE2B6), W(\HA3AA,\HABEA), W(\HDB6C,\H4F15), W(\HFACB,\H4FD0),
    W(\HC742,\HF442), W(\HEF6A,\HBBB5), W(\H654F,\H3B1D), W(\H41CD,\H2105),
    W(\HD81E,\H799E), W(\H8685,\H4DC7), W(\HE44B,\H476A), W(\H3D81,\H6250),
    W(\HCF62,\HA1F2), W(\H5B8D,\H2646), W(\HFC88,\H83A0), W(\HC1C7,\HB6A3),
    W(\H7F15,\H24C3), W(\H69CB,\H7492), W(\H4784,\H8A0B), W(\H5692,\HB285),
    W(\H095B,\HBF00), W(\HAD19,\H489D), W(\H1462,\HB174), W(\H2382,\H0E00),
    W(\H5842,\H8D2A), W(\H0C55,\HF5EA), W(\H1DAD,\HF43E), W(\H233F,\H7061),
    W(\H3372,\HF092), W(\H8D93,\H7E41), W(\HD65F,\HECF1), W(\H6C22,\H3BDB),
    W(\H7CDE,\H3759), W(\HCBEE,\H7460), W(\H4085,\HF2A7), W(\HCE77,\H326E),
    W(\HA607,\H8084), W(\H19F8,\H509E), W(\HE8EF,\HD855), W(\H61D9,\H9735),
    W(\HA969,\HA7AA), W(\HC50C,\H06C2), W(\H5A04,\HABFC), W(\H800B,\HCADC),
    W(\H9E44,\H7A2E), W(\HC345,\H3484), W(\HFDD5,\H6705), W(\H0E1E,\H9EC9),
    W(\HDB73,\HDBD3), W(\H1055,\H88CD), W(\H675F,\HDA79), W(\HE367,\H4340),
    W(\HC5C4,\H3465), W(\H713E,\H38D8), W(\H3D28,\HF89E), W(\HF16D,\HFF20),
    W(\H153E,\H21E7), W(\H8FB0,\H3D4A), W(\HE6E3,\H9F2B), W(\HDB83,\HADF7)>>)

PiS3 == TLCEval(<<
    W(\HE93D,\H5A68), W(\H9481,\H40F7), W(\HF64C,\H261C), W(\H9469,\H2934),
    W(\H4115,\H20F7), W(\H7602,\HD4F7), W(\HBCF4,\H6B2E), W(\HD4A2,\H0068),
    W(\HD408,\H2471), W(\H3320,\HF46A), W(\H43B7,\HD4B7), W(\H5000,\H61AF),
    W(\H1E39,\HF62E), W(\H9724,\H4546), W(\H1421,\H4F74), W(\HBF8B,\H8840),
    W(\H4D95,\HFC1D), W(\H96B5,\H91AF), W(\H70F4,\HDDD3), W(\H66A0,\H2F45),
    W(\HBFBC,\H09EC), W(\H03BD,\H9785), W(\H7FAC,\H6DD0), W(\H31CB,\H8504),
    W(\H96EB,\H27B3), W(\H55FD,\H3941), W(\HDA25,\H47E6), W(\HABCA,\H0A9A),
    W(\H2850,\H7825), W(\H5304,\H29F4), W(\H0A2C,\H86DA), W(\HE9B6,\H6DFB),
    W(\H68DC,\H1462), W(\HD748,\H6900), W(\H680E,\HC0A4), W(\H27A1,\H8DEE),
    W(\H4F3F,\HFEA2), W(\HE887,\HAD8C), W(\HB58C,\HE006), W(\H7AF4,\HD6B6),
    W(\HAACE,\H1E7C), W(\HD337,\H5FEC), W(\HCE78,\HA399), W(\H406B,\H2A42),
    W(\H20FE,\H9E35), W(\HD9F3,\H85B9), W(\HEE39,\HD7AB), W(\H3B12,\H4E8B),
    W(\H1DC9,\HFAF7), W(\H4B6D,\H1856), W(\H26A3,\H6631), W(\HEAE3,\H97B2),
    W(\H3A6E,\HFA74), W(\HDD5B,\H4332), W(\H6841,\HE7F7), W(\HCA78,\H20FB),
    W(\HFB0A,\HF54E), W(\HD8FE,\HB397), W(\H4540,\H56AC), W(\HBA48,\H9527),
    W(\H5553,\H3A3A), W(\H2083,\H8D87), W(\HFE6B,\HA9B7), W(\HD096,\H954B),
    W(\H55A8,\H67BC), W(\HA115,\H9A58), W(\HCCA9,\H2963), W(\H99E1,\HDB33),
    W(\HA62A,\H4A56), W(\H3F31,\H25F9), W(\H5EF4,\H7E1C), W(\H9029,\H317C),
    W(\HFDF8,\HE802), W(\H0427,\H2F70), W(\H80BB,\H155C), W(\H0528,\H2CE3),
    W(\H95C1,\H1548), W(\HE4C6,\H6D22), W(\H48C1,\H133F), W(\HC70F,\H86DC),
    W(\H07F9,\HC9EE), W(\H4104,\H1F0F), W(\H4047,\H79A4), W(\H5D88,\H6E17),
    W(\H325F,\H51EB), W(\HD59B,\HC0D1), W(\HF2BC,\HC18F), W(\H4111,\H3564),
    W(\H257B,\H7834), W(\H602A,\H9C60), W(\HDFF8,\HE8A3), W(\H1F63,\H6C1B),
    W(\H0E12,\HB4C2), W(\H02E1,\H329E), W(\HAF66,\H4FD1), W(\HCAD1,\H8115),
    W(\H6B23,\H95E0), W(\H333E,\H92E1), W(\H3B24,\H0B62), W(\HEEBE,\HB922),
    W(\H85B2,\HA20E), W(\HE6BA,\H0D99), W(\HDE72,\H0C8C), W(\H2DA2,\HF728),
    W(\HD012,\H7845), W(\H95B7,\H94FD), W(\H647D,\H0862), W(\HE7CC,\HF5F0),
    W(\H5449,\HA36F), W(\H877D,\H48FA), W(\HC39D,\HFD27), W(\HF33E,\H8D1E),
    W(\H0A47,\H6341), W(\H992E,\HFF74), W(\H3A6F,\H6EAB), W(\HF4F8,\HFD37),
    W(\HA812,\HDC60), W(\HA1EB,\HDDF8), W(\H991B,\HE14C), W(\HDB6E,\H6B0D),
    W(\HC67B,\H5510), W(\H6D67,\H2C37), W(\H2765,\HD43B), W(\HDCD0,\HE804),
    W(\HF129,\H0DC7), W(\HCC00,\HFFA3), W(\HB539,\H0F92), W(\H690F,\HED0B),
    W(\H667B,\H9FFB), W(\HCEDB,\H7D9C), W(\HA091,\HCF0B), W(\HD915,\H5EA3),
    W(\HBB13,\H2F88), W(\H515B,\HAD24), W(\H7B94,\H79BF), W(\H763B,\HD6EB),
    W(\H3739,\H2EB3), W(\HCC11,\H5979), W(\H8026,\HE297), W(\HF42E,\H312D),
    W(\H6842,\HADA7), W(\HC66A,\H2B3B), W(\H1275,\H4CCC), W(\H782E,\HF11C),
    W(\H6A12,\H4237), W(\HB792,\H51E7), W(\H06A1,\HBBE6), W(\H4BFB,\H6350),
    W(\H1A6B,\H1018), W(\H11CA,\HEDFA), W(\H3D25,\HBDD8), W(\HE2E1,\HC3C9),
    W(\H4442,\H1659), W(\H0A12,\H1386), W(\HD90C,\HEC6E), W(\HD5AB,\HEA2A),
    W(\H64AF,\H674E), W(\HDA86,\HA85F), W(\HBEBF,\HE988), W(\H64E4,\HC3FE),
    W(\H9DBC,\H8057), W(\HF0F7,\HC086), W(\H6078,\H7BF8), W(\H6003,\H604D),
    W(\HD1FD,\H8346), W(\HF638,\H1FB0), W(\H7745,\HAE04), W(\HD736,\HFCCC),
    W(\H8342,\H6B33), W(\HF01E,\HAB71), W(\HB080,\H4187), W(\H3C00,\H5E5F),
    W(\H77A0,\H57BE), W(\HBDE8,\HAE24), W(\H5546,\H4299), W(\HBF58,\H2E61),
    W(\H4E58,\HF48F), W(\HF2DD,\HFDA2), W(\HF474,\HEF38), W(\H8789,\HBDC2),
    W(\H5366,\HF9C3), W(\HC8B3,\H8E74), W(\HB475,\HF255), W(\H46FC,\HD9B9),
    W(\H7AEB,\H2661), W(\H8B1D,\HDF84), W(\H846A,\H0E79), W(\H915F,\H95E2),
    W(\H466E,\H598E), W(\H20B4,\H5770), W(\H8CD5,\H5591), W(\HC902,\HDE4C),
    W(\HB90B,\HACE1), W(\HBB82,\H05D0), W(\H11A8,\H6248), W(\H7574,\HA99E),
    W(\HB77F,\H19B6), W(\HE0A9,\HDC09), W(\H662D,\H09A1), W(\HC432,\H4633),
    W(\HE85A,\H1F02), W(\H09F0,\HBE8C), W(\H4A99,\HA025), W(\H1D6E,\HFE10),
    W(\H1AB9,\H3D1D), W(\H0BA5,\HA4DF), W(\HA186,\HF20F), W(\H2868,\HF169),
    W(\HDCB7,\HDA83), W(\H5739,\H06FE), W(\HA1E2,\HCE9B), W(\H4FCD,\H7F52),
    W(\H5011,\H5E01), W(\HA706,\H83FA), W(\HA002,\HB5C4), W(\H0DE6,\HD027),
    W(\H9AF8,\H8C27), W(\H773F,\H8641), W(\HC360,\H4C06), W(\H61A8,\H06B5),
    W(\HF017,\H7A28), W(\HC0F5,\H86E0), W(\H0060,\H58AA), W(\H30DC,\H7D62),
    W(\H11E6,\H9ED7), W(\H2338,\HEA63), W(\H53C2,\HDD94), W(\HC2C2,\H1634),
    W(\HBBCB,\HEE56), W(\H90BC,\HB6DE), W(\HEBFC,\H7DA1), W(\HCE59,\H1D76),
    W(\H6F05,\HE409), W(\H4B7C,\H0188), W(\H3972,\H0A3D), W(\H7C92,\H7C24),
    W(\H86E3,\H725F), W(\H724D,\H9DB9), W(\H1AC1,\H5BB4), W(\HD39E,\HB8FC),
    W(\HED54,\H5578), W(\H08FC,\HA5B5), W(\HD83D,\H7CD3), W(\H4DAD,\H0FC4),
    W(\H1E50,\HEF5E), W(\HB161,\HE6F8), W(\HA285,\H14D9), W(\H6C51,\H133C),
    W(\H6FD5,\HC7E7), W(\H56E1,\H4EC4), W(\H362A,\HBFCE), W(\HDDC6,\HC837),
    W(\HD79A,\H3234), W(\H9263,\H8212), W(\H670E,\HFA8E), W(\H4060,\H00E0)>>)

PiS4 == TLCEval(<<
    W(\H3A39,\HCE37), W(\HD3FA,\HF5CF), W(\HABC2,\H7737), W(\H5AC5,\H2D1B),
    W(\H5CB0,\H679E), W(\H4FA3,\H3742), W(\HD382,\H2740), W(\H99BC,\H9BBE),
    W(\HD511,\H8E9D), W(\HBF0F,\H7315), W(\HD62D,\H1C7E), W(\HC700,\HC47B),
    W(\HB78C,\H1B6B), W(\H21A1,\H9045), W(\HB26E,\HB1BE), W(\H6A36,\H6EB4),
    W(\H5748,\HAB2F), W(\HBC94,\H6E79), W(\HC6A3,\H76D2), W(\H6549,\HC2C8),
    W(\H530F,\HF8EE), W(\H468D,\HDE7D), W(\HD573,\H0A1D), W(\H4CD0,\H4DC6),
    W(\H2939,\HBBDB), W(\HA9BA,\H4650), W(\HAC95,\H26E8), W(\HBE5E,\HE304),
    W(\HA1FA,\HD5F0), W(\H6A2D,\H519A), W(\H63EF,\H8CE2), W(\H9A86,\HEE22),
    W(\HC089,\HC2B8), W(\H4324,\H2EF6), W(\HA51E,\H03AA), W(\H9CF2,\HD0A4),
    W(\H83C0,\H61BA), W(\H9BE9,\H6A4D), W(\H8FE5,\H1550), W(\HBA64,\H5BD6),
    W(\H2826,\HA2F9), W(\HA73A,\H3AE1), W(\H4BA9,\H9586), W(\HEF55,\H62E9),
    W(\HC72F,\HEFD3), W(\HF752,\HF7DA), W(\H3F04,\H6F69), W(\H77FA,\H0A59),
    W(\H80E4,\HA915), W(\H87B0,\H8601), W(\H9B09,\HE6AD), W(\H3B3E,\HE593),
    W(\HE990,\HFD5A), W(\H9E34,\HD797), W(\H2CF0,\HB7D9), W(\H022B,\H8B51),
    W(\H96D5,\HAC3A), W(\H017D,\HA67D), W(\HD1CF,\H3ED6), W(\H7C7D,\H2D28),
    W(\H1F9F,\H25CF), W(\HADF2,\HB89B), W(\H5AD6,\HB472), W(\H5A88,\HF54C),
    W(\HE029,\HAC71), W(\HE019,\HA5E6), W(\H47B0,\HACFD), W(\HED93,\HFA9B),
    W(\HE8D3,\HC48D), W(\H283B,\H57CC), W(\HF8D5,\H6629), W(\H7913,\H2E28),
    W(\H785F,\H0191), W(\HED75,\H6055), W(\HF796,\H0E44), W(\HE3D3,\H5E8C),
    W(\H1505,\H6DD4), W(\H88F4,\H6DBA), W(\H03A1,\H6125), W(\H0564,\HF0BD),
    W(\HC3EB,\H9E15), W(\H3C90,\H57A2), W(\H9727,\H1AEC), W(\HA93A,\H072A),
    W(\H1B3F,\H6D9B), W(\H1E63,\H21F5), W(\HF59C,\H66FB), W(\H26DC,\HF319),
    W(\H7533,\HD928), W(\HB155,\HFDF5), W(\H0356,\H3482), W(\H8ABA,\H3CBB),
    W(\H2851,\H7711), W(\HC20A,\HD9F8), W(\HABCC,\H5167), W(\HCCAD,\H925F),
    W(\H4DE8,\H1751), W(\H3830,\HDC8E), W(\H379D,\H5862), W(\H9320,\HF991),
    W(\HEA7A,\H90C2), W(\HFB3E,\H7BCE), W(\H5121,\HCE64), W(\H774F,\HBE32),
    W(\HA8B6,\HE37E), W(\HC329,\H3D46), W(\H48DE,\H5369), W(\H6413,\HE680),
    W(\HA2AE,\H0810), W(\HDD6D,\HB224), W(\H6985,\H2DFD), W(\H0907,\H2166),
    W(\HB39A,\H460A), W(\H6445,\HC0DD), W(\H586C,\HDECF), W(\H1C20,\HC8AE),
    W(\H5BBE,\HF7DD), W(\H1B58,\H8D40), W(\HCCD2,\H017F), W(\H6BB4,\HE3BB),
    W(\HDDA2,\H6A7E), W(\H3A59,\HFF45), W(\H3E35,\H0A44), W(\HBCB4,\HCDD5),
    W(\H72EA,\HCEA8), W(\HFA64,\H84BB), W(\H8D66,\H12AE), W(\HBF3C,\H6F47),
    W(\HD29B,\HE463), W(\H542F,\H5D9E), W(\HAEC2,\H771B), W(\HF64E,\H6370),
    W(\H740E,\H0D8D), W(\HE75B,\H1357), W(\HF872,\H1671), W(\HAF53,\H7D5D),
    W(\H4040,\HCB08), W(\H4EB4,\HE2CC), W(\H34D2,\H466A), W(\H0115,\HAF84),
    W(\HE1B0,\H0428), W(\H9598,\H3A1D), W(\H06B8,\H9FB4), W(\HCE6E,\HA048),
    W(\H6F3F,\H3B82), W(\H3520,\HAB82), W(\H011A,\H1D4B), W(\H2772,\H27F8),
    W(\H6115,\H60B1), W(\HE793,\H3FDC), W(\HBB3A,\H792B), W(\H3445,\H25BD),
    W(\HA088,\H39E1), W(\H51CE,\H794B), W(\H2F32,\HC9B7), W(\HA01F,\HBAC9),
    W(\HE01C,\HC87E), W(\HBCC7,\HD1F6), W(\HCF01,\H11C3), W(\HA1E8,\HAAC7),
    W(\H1A90,\H8749), W(\HD44F,\HBD9A), W(\HD0DA,\HDECB), W(\HD50A,\HDA38),
    W(\H0339,\HC32A), W(\HC691,\H3667), W(\H8DF9,\H317C), W(\HE0B1,\H2B4F),
    W(\HF79E,\H59B7), W(\H43F5,\HBB3A), W(\HF2D5,\H19FF), W(\H27D9,\H459C),
    W(\HBF97,\H222C), W(\H15E6,\HFC2A), W(\H0F91,\HFC71), W(\H9B94,\H1525),
    W(\HFAE5,\H9361), W(\HCEB6,\H9CEB), W(\HC2A8,\H6459), W(\H12BA,\HA8D1),
    W(\HB6C1,\H075E), W(\HE305,\H6A0C), W(\H10D2,\H5065), W(\HCB03,\HA442),
    W(\HE0EC,\H6E0E), W(\H1698,\HDB3B), W(\H4C98,\HA0BE), W(\H3278,\HE964),
    W(\H9F1F,\H9532), W(\HE0D3,\H92DF), W(\HD3A0,\H342B), W(\H8971,\HF21E),
    W(\H1B0A,\H7441), W(\H4BA3,\H348C), W(\HC5BE,\H7120), W(\HC376,\H32D8),
    W(\HDF35,\H9F8D), W(\H9B99,\H2F2E), W(\HE60B,\H6F47), W(\H0FE3,\HF11D),
    W(\HE54C,\HDA54), W(\H1EDA,\HD891), W(\HCE62,\H79CF), W(\HCD3E,\H7E6F),
    W(\H1618,\HB166), W(\HFD2C,\H1D05), W(\H848F,\HD2C5), W(\HF6FB,\H2299),
    W(\HF523,\HF357), W(\HA632,\H7623), W(\H93A8,\H3531), W(\H56CC,\HCD02),
    W(\HACF0,\H8162), W(\H5A75,\HEBB5), W(\H6E16,\H3697), W(\H88D2,\H73CC),
    W(\HDE96,\H6292), W(\H81B9,\H49D0), W(\H4C50,\H901B), W(\H71C6,\H5614),
    W(\HE6C6,\HC7BD), W(\H327A,\H140A), W(\H45E1,\HD006), W(\HC3F2,\H7B9A),
    W(\HC9AA,\H53FD), W(\H62A8,\H0F00), W(\HBB25,\HBFE2), W(\H35BD,\HD2F6),
    W(\H7112,\H6905), W(\HB204,\H0222), W(\HB6CB,\HCF7C), W(\HCD76,\H9C2B),
    W(\H5311,\H3EC0), W(\H1640,\HE3D3), W(\H38AB,\HBD60), W(\H2547,\HADF0),
    W(\HBA38,\H209C), W(\HF746,\HCE76), W(\H77AF,\HA1C5), W(\H2075,\H6060),
    W(\H85CB,\HFE4E), W(\H8AE8,\H8DD8), W(\H7AAA,\HF9B0), W(\H4CF9,\HAA7E),
    W(\H1948,\HC25C), W(\H02FB,\H8A8C), W(\H01C3,\H6AE4), W(\HD6EB,\HE1F9),
    W(\H90D4,\HF869), W(\HA65C,\HDEA0), W(\H3F09,\H252D), W(\HC208,\HE69F),
    W(\HB74E,\H6132), W(\HCE77,\HE25B), W(\H578F,\HDFE3), W(\H3AC3,\H72E6)>>)
\* -------------------------------------------------- END pi (generated text)
PiS == <<PiS1, PiS2, PiS3, PiS4>>

\* --------------------------------------------------------------- the cipher
\* "Divide xL into four eight-bit quarters a, b, c, d (a most significant):
\*  F(xL) = ((S1[a] + S2[b] mod 2^32) XOR S3[c]) + S4[d] mod 2^32"
F(S, x) ==
    LET a == x[2] \div 256   b == x[2] % 256
        c == x[1] \div 256   d == x[1] % 256
    IN Add32(Xor32(Add32(S[1][a + 1], S[2][b + 1]), S[3][c + 1]), S[4][d + 1])

\* "For i = 1 to 16:  xL = xL XOR Pi;  xR = F(xL) XOR xR;  swap xL and xR.
\*  Swap xL and xR (undo the last swap).  xR = xR XOR P17.  xL = xL XOR P18."
\* A 64-bit block is the pair <<xL, xR>> of words; K is the sequence of the 18
\* subkeys in their order of use.
Round(K, S, i, x) ==
    LET xl == Xor32(x[1], K[i])
        xr == Xor32(F(S, xl), x[2])
    IN TLCEval(<<xr, xl>>)
Crypt(K, S, blk) ==
    LET x == FoldLeft(LAMBDA y, i : Round(K, S, i, y), blk, RoundNumbers)
    IN TLCEval(<<Xor32(x[2], K[18]), Xor32(x[1], K[17])>>)

EncBlk(P, S, blk) == Crypt(P, S, blk)
\* "Decryption is exactly the same as encryption, except that P1..P18 are used
\*  in the reverse order."
DecBlk(P, S, blk) == Crypt(Rev(P), S, blk)

\* ------------------------------------------------------------ key schedule
\* word j (j = 0, 1, ...) of the byte string bs cycled: "XOR P1 with the first 32
\* bits of the key, P2 with the second 32 bits ... repeatedly cycle through the
\* key bits"; a word is 4 successive bytes, most significant first
CycWord(bs, j) ==
    LET n == Len(bs)
        b(k) == bs[((4 * j + k) % n) + 1]
    IN <<b(2) * 256 + b(3), b(0) * 256 + b(1)>>

XorKey(P, key) == TLCEval([i \in 1..18 |-> Xor32(P[i], CycWord(key, i - 1))])

\* The 521 chained encryptions.  Encryption number t = 0..520 takes the previous
\* output (the all-zero block for t = 0), XORs it (eksblowfish only) with the next
\* 64 bits of the cycled salt, encrypts it with the current subkeys, and the result
\* replaces the next two entries of P1..P18, S1[0..255], ..., S4[0..255]:
\* t = 0..8 replace P[2t+1], P[2t+2]; t = 9 + 128 (b - 1) + j replaces entries 2j and
\* 2j + 1 of S-box b (indices 2j + 1, 2j + 2 of the 1-based sequence).
\* salt = <<>> is Schneier's schedule (nothing is XORed).
Mix(blk, salt, t) ==
    IF salt = <<>> THEN blk
    ELSE <<Xor32(blk[1], CycWord(salt, 2 * t)), Xor32(blk[2], CycWord(salt, 2 * t + 1))>>

\* st = [p, s, blk]: the subkeys and the previous output
Chain(salt, t, st) ==
    LET o == EncBlk(st.p, st.s, Mix(st.blk, salt, t))
        b == ((t - 9) \div 128) + 1
        j == (t - 9) % 128
    IN IF t < 9
       THEN [p |-> [st.p EXCEPT ![2 * t + 1] = o[1], ![2 * t + 2] = o[2]], s |-> st.s, blk |-> o]
       ELSE [p |-> st.p, s |-> [st.s EXCEPT ![b][2 * j + 1] = o[1], ![b][2 * j + 2] = o[2]], blk |-> o]

\* a state is [p |-> P, s |-> S, le |-> byte order of the block interface]
InitState == [p |-> PiP, s |-> PiS, le |-> FALSE]

\* Provos & Mazieres: ExpandKey(state, salt, key); with salt = <<>> steps 2-7 of
\* Schneier's subkey calculation applied to an arbitrary state.  key and salt
\* are non-empty byte strings of any length (the paper has a 128-bit salt).
ExpandKey(st, salt, key) ==
    LET r == FoldLeft(LAMBDA x, t : Chain(salt, t, x),
                      [p |-> XorKey(st.p, key), s |-> st.s, blk |-> <<Zero32, Zero32>>],
                      ChainNumbers)
    IN [p |-> r.p, s |-> r.s, le |-> st.le]

\* ------------------------------------------------- conformance interface
\* types: "Blowfish" reads/writes the block as two big-endian words xL, xR;
\* "BlowfishLE" is the same permutation on two little-endian words
BlowfishSched(type, key, extra) ==
    [ExpandKey(InitState, <<>>, key) EXCEPT !.le = (type = "BlowfishLE")]

RdBE(b, o) == <<b[o + 3] * 256 + b[o + 4], b[o + 1] * 256 + b[o + 2]>>
RdLE(b, o) == <<b[o + 1] + 256 * b[o + 2], b[o + 3] + 256 * b[o + 4]>>
WrBE(w) == <<w[2] \div 256, w[2] % 256, w[1] \div 256, w[1] % 256>>
WrLE(w) == <<w[1] % 256, w[1] \div 256, w[2] % 256, w[2] \div 256>>
RdBlk(le, b) == IF le THEN <<RdLE(b, 0), RdLE(b, 4)>> ELSE <<RdBE(b, 0), RdBE(b, 4)>>
WrBlk(le, x) == IF le THEN WrLE(x[1]) \o WrLE(x[2]) ELSE WrBE(x[1]) \o WrBE(x[2])

BlowfishEnc(ks, in) == WrBlk(ks.le, EncBlk(ks.p, ks.s, RdBlk(ks.le, in)))
BlowfishDec(ks, in) == WrBlk(ks.le, DecBlk(ks.p, ks.s, RdBlk(ks.le, in)))
=============================================================================
