------------------------------ MODULE Gen_Belt ------------------------------
(***************************************************************************)
(* Specification-generated inputs that steer an internal state (spec ->    *)
(* impl direction).  The conformance checks compare every observation with *)
(* Belt.tla bit for bit, but uniform and corner-valued inputs never make a *)
(* mid-round word hit a chosen constant (probability 2^-32 per round).     *)
(* Here TLC constructs such inputs from the specification itself: choose   *)
(* the state at the start of round i so that the Lai-Massey word           *)
(*      e = G21(b + c + K[7i-3]) xor <i>                                   *)
(* takes a chosen value (0, all ones, ...), then run the specification's   *)
(* own rounds backwards (every round of belt-block is invertible) to the   *)
(* block that reaches it.  Both directions: 6.1.3 (encryption) and 6.1.4   *)
(* (decryption).  The blocks are printed as JSON and fed to the real code  *)
(* by the driver; Conf_Belt judges the results as for any other input.     *)
(* ASSUME clauses check the construction against Belt.tla itself.          *)
(***************************************************************************)
EXTENDS Belt, TLC, Json
CONSTANT GenSeed          \* set by the runner (bin/vlib) from VERIF_SEED

HInv == TLCEval([y \in 0..255 |-> CHOOSE x \in 0..255 : H[x] = y])
SubHInv(u) == <<HInv[u[1] % 256] + 256 * HInv[u[1] \div 256], HInv[u[2] % 256] + 256 * HInv[u[2] \div 256]>>
\* G_r(u) = RotHi(H(u), r)
GInv(r, v) == SubHInv(RotRW(M, v, r))

\* ---------------------------------------------------------------- inverse of one step of 6.1.3 / 6.1.4
\* kx(j) = the key word used by sub-step j (1..7 in the order of the standard's step list)
EncK(th, i, j) == KeyWord(th, 7*i - 7 + j)
DecK(th, i, j) == KeyWord(th, 7*i + 1 - j)

\* forward step with the key-word selector as a parameter and without the final word permutation
Core(K(_), i, st) ==
    LET a  == st[1]  b == st[2]  c == st[3]  d == st[4]
        b1 == XorW(b, G(5, Plus(a, K(1))))
        c1 == XorW(c, G(21, Plus(d, K(2))))
        a1 == Minus(a, G(13, Plus(b1, K(3))))
        e  == XorW(G(21, Plus(Plus(b1, c1), K(4))), W32Of(i))
        b2 == Plus(b1, e)
        c2 == Minus(c1, e)
        d1 == Plus(d, G(13, Plus(c2, K(5))))
        b3 == XorW(b2, G(21, Plus(a1, K(6))))
        c3 == XorW(c2, G(5, Plus(d1, K(7))))
    IN <<a1, b3, c3, d1>>
\* its inverse: <<a1, b3, c3, d1>> |-> <<a, b, c, d>>
CoreInv(K(_), i, out) ==
    LET a1 == out[1]  b3 == out[2]  c3 == out[3]  d1 == out[4]
        c2 == XorW(c3, G(5, Plus(d1, K(7))))
        b2 == XorW(b3, G(21, Plus(a1, K(6))))
        d  == Minus(d1, G(13, Plus(c2, K(5))))
        e  == XorW(G(21, Plus(Plus(b2, c2), K(4))), W32Of(i))      \* b1 + c1 = b2 + c2
        b1 == Minus(b2, e)
        c1 == Plus(c2, e)
        a  == Plus(a1, G(13, Plus(b1, K(3))))
        c  == XorW(c1, G(21, Plus(d, K(2))))
        b  == XorW(b1, G(5, Plus(a, K(1))))
    IN <<a, b, c, d>>

\* EncStep = permutation after Core: <<a1,b3,c3,d1>> |-> <<b3, d1, a1, c3>>;  DecStep: |-> <<c3, a1, d1, b3>>
EncStepInv(th, i, s) == LET K(j) == EncK(th, i, j) IN CoreInv(K, i, <<s[3], s[1], s[4], s[2]>>)
DecStepInv(th, i, s) == LET K(j) == DecK(th, i, j) IN CoreInv(K, i, <<s[2], s[4], s[1], s[3]>>)

RECURSIVE EncBack(_, _, _)
EncBack(th, i, st) == IF i < 1 THEN st ELSE EncBack(th, i - 1, EncStepInv(th, i, st))     \* undo rounds i, i-1, .., 1
RECURSIVE DecBack(_, _, _)
DecBack(th, i, st) == IF i > 8 THEN st ELSE DecBack(th, i + 1, DecStepInv(th, i, st))     \* undo rounds i, i+1, .., 8

\* ---------------------------------------------------------------- steering e
\* the state at the start of round i (a, b, d free) for which the word e of that round equals `want`
Steer(K(_), i, a, b, d, want) ==
    LET b1 == XorW(b, G(5, Plus(a, K(1))))
        t  == GInv(21, XorW(want, W32Of(i)))          \* b1 + c1 + K4 must equal t
        c1 == Minus(Minus(t, b1), K(4))
        c  == XorW(c1, G(21, Plus(d, K(2))))
    IN <<a, b, c, d>>

\* a plaintext block whose encryption has e = want in round i
EncBlockFor(key, i, a, b, d, want) ==
    LET th == WordsOf(key)
        K(j) == EncK(th, i, j)
        st == Steer(K, i, a, b, d, want)
    IN OctetsOf(EncBack(th, i - 1, st))
\* a ciphertext block whose decryption has e = want in round i (6.1.4 runs i = 8 down to 1; its input words are Y as given)
DecBlockFor(key, i, a, b, d, want) ==
    LET th == WordsOf(key)
        K(j) == DecK(th, i, j)
        st == Steer(K, i, a, b, d, want)
    IN OctetsOf(DecBack(th, i + 1, st))

\* ---------------------------------------------------------------- the generated cases
SeedN == GenSeed % 100000
Byte8(n) == ((n * 7919 + 104729) % 65521) % 256
KeyOf(k) == [j \in 1..32 |-> Byte8(SeedN * 131 + k * 1009 + j * j * 31 + j * 7)]
WordOf(n) == <<(n * 40503 + 12345) % 65536, (n * 30011 + 54321) % 65536>>
Wants == << <<0, 0>>, <<65535, 65535>>, <<1, 0>>, <<0, 32768>> >>       \* e = 0, ~0, 1, 2^31

Cases ==
    [n \in 1..(8 * Len(Wants)) |->
        LET i == ((n - 1) % 8) + 1
            w == Wants[((n - 1) \div 8) + 1]
            key == KeyOf(1 + (n % 3))
            a == WordOf(SeedN + 3 * n)  b == WordOf(SeedN + 3 * n + 1)  d == WordOf(SeedN + 3 * n + 2)
        IN [key |-> key, round |-> i, want |-> w,
            enc_block |-> EncBlockFor(key, i, a, b, d, w),
            dec_block |-> DecBlockFor(key, i, a, b, d, w)]]

\* ---------------------------------------------------------------- the construction is checked against Belt.tla
RECURSIVE EncFrom2(_, _, _, _)
EncFrom2(th, i, last, st) == IF i > last THEN st ELSE EncFrom2(th, i + 1, last, EncStep(th, i, st))
RECURSIVE DecFrom2(_, _, _, _)
DecFrom2(th, i, last, st) == IF i < last THEN st ELSE DecFrom2(th, i - 1, last, DecStep(th, i, st))
\* e of round i when the forward specification processes the block
EOfEnc(th, i, x) ==
    LET st == IF i = 1 THEN WordsOf(x) ELSE EncFrom2(th, 1, i - 1, WordsOf(x))
        K(j) == EncK(th, i, j)
        b1 == XorW(st[2], G(5, Plus(st[1], K(1))))
        c1 == XorW(st[3], G(21, Plus(st[4], K(2))))
    IN XorW(G(21, Plus(Plus(b1, c1), K(4))), W32Of(i))
EOfDec(th, i, y) ==
    LET st == IF i = 8 THEN WordsOf(y) ELSE DecFrom2(th, 8, i + 1, WordsOf(y))
        K(j) == DecK(th, i, j)
        b1 == XorW(st[2], G(5, Plus(st[1], K(1))))
        c1 == XorW(st[3], G(21, Plus(st[4], K(2))))
    IN XorW(G(21, Plus(Plus(b1, c1), K(4))), W32Of(i))

ASSUME GInvIsInverse == \A r \in {5, 13, 21} : \A n \in 1..40 : GInv(r, G(r, WordOf(n))) = WordOf(n)
ASSUME StepInverses == \A i \in 1..8 : \A n \in 1..6 :
    LET th == WordsOf(KeyOf(n))  st == <<WordOf(n), WordOf(n + 9), WordOf(n + 20), WordOf(n + 31)>>
    IN EncStepInv(th, i, EncStep(th, i, st)) = st /\ DecStepInv(th, i, DecStep(th, i, st)) = st
ASSUME CasesHitTheTarget == \A n \in 1..Len(Cases) :
    LET c == Cases[n]  th == WordsOf(c.key)
    IN EOfEnc(th, c.round, c.enc_block) = c.want /\ EOfDec(th, c.round, c.dec_block) = c.want

ASSUME PrintT(<<"GEN", ToJson(Cases)>>)

VARIABLE gstep
Init == gstep = 0
Next == UNCHANGED gstep
Spec == Init /\ [][Next]_gstep
=============================================================================
