------------------------------ MODULE ConfBase ------------------------------
(***************************************************************************)
(* L3 conformance trace specification, generic in the algorithm oracle.    *)
(*                                                                         *)
(* A trace is an NDJSON file (one event per public call of the real code,  *)
(* logged at the call's return).  The specification keeps, per live        *)
(* instance id, the key schedule *the standard* derives from the key the   *)
(* instance was constructed with, and accepts an enc/dec/blocks event only *)
(* if every output block equals the value the L2 specification computes.   *)
(* Instantiated by Conf_<Family>.tla, which supplies OSched/OEnc/ODec.     *)
(***************************************************************************)
EXTENDS Naturals, Sequences, TLC, Json, IOUtils

CONSTANTS Rec,               \* the trace: ndJsonDeserialize(IOEnv.TRACE), defined in the root module
                             \* (TLC evaluates constant definitions of the root module once)
          OSched(_, _, _),   \* (type, key bytes, extra) -> schedule
          OEnc(_, _),        \* (schedule, block) -> block
          ODec(_, _),
          ExtraKinds         \* event kinds the instantiating module handles itself (never skipped here)
VARIABLES tpos,      \* index of the next trace line to consume
          inst    \* id -> [type, ks]

N == Len(Rec)

Init == tpos = 1 /\ inst = <<>>

IsEvent(k) == tpos <= N /\ Rec[tpos].ev = k /\ tpos' = tpos + 1
Has(f) == f \in DOMAIN Rec[tpos]

Put(f, k, v) == [x \in (DOMAIN f) \cup {k} |-> IF x = k THEN v ELSE f[x]]
Del(f, k) == [x \in (DOMAIN f) \ {k} |-> f[x]]

New ==
    /\ IsEvent("new")
    /\ LET e == Rec[tpos] IN
       \* whether a key is accepted is decided elsewhere (C11, C13); a constructor that panics conforms to nothing
       /\ e.out # "panic"
       /\ IF e.out = "ok"
          THEN inst' = Put(inst, e.id, [type |-> e.type, ks |-> TLCEval(OSched(e.type, e.key, e.x))])
          ELSE UNCHANGED inst

Ok(e) == IF "outcome" \in DOMAIN e THEN e.outcome = "ok" ELSE TRUE

Enc ==
    /\ IsEvent("enc")
    /\ LET e == Rec[tpos] IN
       /\ e.id \in DOMAIN inst
       /\ Ok(e)
       /\ e.out = OEnc(inst[e.id].ks, e.in)
    /\ UNCHANGED inst

Dec ==
    /\ IsEvent("dec")
    /\ LET e == Rec[tpos] IN
       /\ e.id \in DOMAIN inst
       /\ Ok(e)
       /\ e.out = ODec(inst[e.id].ks, e.in)
    /\ UNCHANGED inst

\* a multi-block call: every lane is an independently checked block
Blocks ==
    /\ IsEvent("blocks")
    /\ LET e == Rec[tpos] IN
       /\ e.id \in DOMAIN inst
       /\ Ok(e)
       /\ Len(e.out) = Len(e.in)
       /\ \A j \in 1..Len(e.in) :
             e.out[j] = IF e.dir = "enc" THEN OEnc(inst[e.id].ks, e.in[j])
                                         ELSE ODec(inst[e.id].ks, e.in[j])
    /\ UNCHANGED inst

\* a clone or a converted instance must compute the standard's function for the same key
Derive(k) ==
    /\ IsEvent(k)
    /\ LET e == Rec[tpos] IN
       /\ e.out # "panic"
       /\ IF e.out = "ok" /\ e.src \in DOMAIN inst
          THEN inst' = Put(inst, e.id, inst[e.src])
          ELSE UNCHANGED inst

Drop ==
    /\ IsEvent("drop")
    /\ inst' = IF Rec[tpos].id \in DOMAIN inst THEN Del(inst, Rec[tpos].id) ELSE inst

Reset == IsEvent("reset") /\ inst' = <<>>

\* debugging aid (bin/oracle): print what the specification computes; never used by the checks
Eval ==
    /\ IsEvent("eval")
    /\ LET e == Rec[tpos]
           ks == TLCEval(OSched(e.type, e.key, e.x))
       IN PrintT(<<"EVAL", "enc", OEnc(ks, e.in), "dec", ODec(ks, e.in)>>)
    /\ UNCHANGED inst

Checked == {"new", "enc", "dec", "blocks", "drop", "reset", "clone", "from", "eval"}
\* events that belong to other layers of the same trace are consumed unchanged; an `abort` (the process died
\* in the code under test) is never consumed
Skip == tpos <= N /\ Rec[tpos].ev \notin (Checked \cup ExtraKinds \cup {"abort"}) /\ tpos' = tpos + 1 /\ UNCHANGED inst

Next == New \/ Enc \/ Dec \/ Blocks \/ Derive("clone") \/ Derive("from") \/ Drop \/ Reset \/ Eval \/ Skip
vars == <<tpos, inst>>
Spec == Init /\ [][Next]_vars

\* accepted iff every line was consumed; on rejection print the first unmatched line
TraceAccepted ==
    LET d == TLCGet("stats").diameter IN
    IF d - 1 = N THEN TRUE
    ELSE /\ PrintT(<<"TRACE_REJECTED", d, N>>)
         /\ FALSE
=============================================================================
