----------------------------- MODULE Threefish -----------------------------
(***************************************************************************)
(* Threefish-256/512/1024, written from "The Skein Hash Function Family",  *)
(* version 1.3 (Ferguson, Lucks, Schneier, Whiting, Bellare, Kohno,        *)
(* Callas, Walker; 2010), section 3.3.                                     *)
(*                                                                         *)
(* Nw = 4/8/16 words of 64 bits, Nr = 72/72/80 rounds.  Bytes <-> words is *)
(* the paper's BytesToWords/WordsToBytes: little-endian.  A 64-bit word is *)
(* a tuple of four 16-bit limbs, least significant first.                  *)
(*   key schedule  k_Nw = C240 xor k_0 xor ... xor k_{Nw-1},               *)
(*                 t_2 = t_0 xor t_1,                                      *)
(*     k_{s,i} = k_{(s+i) mod (Nw+1)}                      i = 0..Nw-4     *)
(*               k_{(s+i) mod (Nw+1)} + t_{s mod 3}        i = Nw-3        *)
(*               k_{(s+i) mod (Nw+1)} + t_{(s+1) mod 3}    i = Nw-2        *)
(*               k_{(s+i) mod (Nw+1)} + s                  i = Nw-1        *)
(*   round d       e_{d,i} = v_{d,i} + k_{d/4,i} if d mod 4 = 0, else      *)
(*                 v_{d,i};  (f_{d,2j}, f_{d,2j+1}) = MIX_{d,j}(e_{d,2j},  *)
(*                 e_{d,2j+1});  v_{d+1,i} = f_{d,pi(i)}                   *)
(*   MIX_{d,j}     y0 = x0 + x1;  y1 = (x1 <<< R_{d mod 8, j}) xor y0      *)
(*   output        c_i = v_{Nr,i} + k_{Nr/4,i}                             *)
(* The rotation constants R (Table 4) and the word permutations pi         *)
(* (Table 3) are pinned as printed in the paper; pi(i) is the SOURCE index *)
(* of output word i.  (/repo/threefish/src/consts.rs stores the inverse    *)
(* permutations, used there as destination indices.)                       *)
(*                                                                         *)
(* The constructor's extra byte string x is the 16-byte tweak (<<>> means  *)
(* the zero tweak).                                                        *)
(*                                                                         *)
(* KATs (spec/kat/Threefish.ndjson): the known-answer vectors of the Skein *)
(* 1.3 reference implementation for Threefish-256/512/1024, (a) all-zero   *)
(* key/tweak/plaintext and (b) key 10 11 12 .., tweak 00 01 .. 0F,         *)
(* plaintext FF FE FD ..; as reproduced in Crypto++ TestVectors/           *)
(* threefish.txt and /repo/threefish/tests/mod.rs.                         *)
(***************************************************************************)
EXTENDS Naturals, Sequences, Bitwise, TLC, Words
LOCAL INSTANCE SequencesExt   \* FoldLeft / FoldRight (evaluated by TLC's Java overrides)

M == 65536

\* C240 = 0x1BD11BDAA9FC1A22
C240 == <<6690, 43516, 7130, 7121>>     \* 1A22, A9FC, 1BDA, 1BD1

\* Table 4: R_{d,j}, row d = 0..7 (stored at d+1), column j = 0..Nw/2-1 (stored at j+1)
R4 == << <<14, 16>>, <<52, 57>>, <<23, 40>>, << 5, 37>>,
         <<25, 33>>, <<46, 12>>, <<58, 22>>, <<32, 32>> >>
R8 == << <<46, 36, 19, 37>>, <<33, 27, 14, 42>>, <<17, 49, 36, 39>>, <<44,  9, 54, 56>>,
         <<39, 30, 34, 24>>, <<13, 50, 10, 17>>, <<25, 29, 39, 43>>, << 8, 35, 56, 22>> >>
R16 == << <<24, 13,  8, 47,  8, 17, 22, 37>>, <<38, 19, 10, 55, 49, 18, 23, 52>>,
          <<33,  4, 51, 13, 34, 41, 59, 17>>, << 5, 20, 48, 41, 47, 28, 16, 25>>,
          <<41,  9, 37, 31, 12, 47, 44, 30>>, <<16, 34, 56, 51,  4, 53, 42, 41>>,
          <<31, 44, 47, 46, 19, 42, 44, 25>>, << 9, 48, 35, 52, 23, 31, 37, 20>> >>

\* Table 3: pi(i), i = 0..Nw-1 (stored at i+1)
Pi4  == <<0, 3, 2, 1>>
Pi8  == <<2, 1, 4, 7, 6, 5, 0, 3>>
Pi16 == <<0, 9, 2, 13, 6, 11, 4, 15, 10, 7, 12, 3, 14, 5, 8, 1>>

\* inverse of a permutation of 0..n-1 given as a 1-based tuple
InvPi(p) == TLCEval([i \in 1..Len(p) |-> (CHOOSE j \in 1..Len(p) : p[j] = i - 1) - 1])
InvPi4 == InvPi(Pi4)   InvPi8 == InvPi(Pi8)   InvPi16 == InvPi(Pi16)

ASSUME /\ \A p \in {Pi4, Pi8, Pi16} : {p[i] : i \in 1..Len(p)} = 0..(Len(p) - 1)
       /\ \A R \in {R4, R8, R16} : \A d \in 1..8 : \A j \in 1..Len(R[d]) : R[d][j] \in 1..63

Params(type) ==
    CASE type = "Threefish256"  -> [nw |-> 4,  nr |-> 72, R |-> R4,  pi |-> Pi4,  ipi |-> InvPi4]
      [] type = "Threefish512"  -> [nw |-> 8,  nr |-> 72, R |-> R8,  pi |-> Pi8,  ipi |-> InvPi8]
      [] type = "Threefish1024" -> [nw |-> 16, nr |-> 80, R |-> R16, pi |-> Pi16, ipi |-> InvPi16]

\* ------------------------------------------------------------ words / bytes
BytesToWords(bs) == LET c == Chunks(bs, 8) IN TLCEval([i \in 1..Len(c) |-> LE16(c[i])])
WordsToBytes(ws) == Flatten([i \in 1..Len(ws) |-> ToLE16(ws[i])])

AddWords(a, b) == TLCEval([i \in 1..Len(a) |-> AddW(M, a[i], b[i])])
SubWords(a, b) == TLCEval([i \in 1..Len(a) |-> SubW(M, a[i], b[i])])

\* -------------------------------------------------------------- key schedule
\* kw: the Nw key words, tw: the two tweak words; result: subkeys k_s, s = 0..Nr/4 (stored at s+1),
\* each a tuple of Nw words
Subkeys(nw, nr, kw, tw) ==
    LET k == TLCEval(Append(kw, FoldLeft(LAMBDA a, b : XorW(a, b), C240, kw)))   \* k[i+1] = k_i
        t == <<tw[1], tw[2], XorW(tw[1], tw[2])>>                                \* t[i+1] = t_i
        ksi(s, i) ==
            LET b == k[((s + i) % (nw + 1)) + 1] IN
            IF i = nw - 3 THEN AddW(M, b, t[(s % 3) + 1])
            ELSE IF i = nw - 2 THEN AddW(M, b, t[((s + 1) % 3) + 1])
            ELSE IF i = nw - 1 THEN AddW(M, b, NatW(M, s, 4))
            ELSE b
    IN TLCEval([s1 \in 1..((nr \div 4) + 1) |-> TLCEval([i1 \in 1..nw |-> ksi(s1 - 1, i1 - 1)])])

\* ---------------------------------------------------------------------- MIX
Mix(r, x0, x1) == LET y0 == AddW(M, x0, x1) IN <<y0, XorW(RotLW(M, x1, r), y0)>>
InvMix(r, y0, y1) == LET x1 == RotRW(M, XorW(y0, y1), r) IN <<SubW(M, y0, x1), x1>>

\* -------------------------------------------------------------------- rounds
\* v: tuple of Nw words (v[i+1] = v_{d,i}); d = 0..Nr-1
Round(ks, v, d) ==
    LET e == IF d % 4 = 0 THEN AddWords(v, ks.sk[(d \div 4) + 1]) ELSE v
        Rd == ks.R[(d % 8) + 1]
        \* f[j+1] = <<f_{d,2j}, f_{d,2j+1}>>
        f == TLCEval([j \in 1..(ks.nw \div 2) |-> Mix(Rd[j], e[2 * j - 1], e[2 * j])])
    IN TLCEval([i \in 1..ks.nw |-> LET src == ks.pi[i] IN f[(src \div 2) + 1][(src % 2) + 1]])

\* the inverse: from v_{d+1} to v_d
InvRound(ks, v, d) ==
    LET Rd == ks.R[(d % 8) + 1]
        \* f_{d,k} = v_{d+1, pi^-1(k)}
        e == TLCEval([j \in 1..(ks.nw \div 2) |->
                 InvMix(Rd[j], v[ks.ipi[2 * j - 1] + 1], v[ks.ipi[2 * j] + 1])])
        ev == TLCEval([i \in 1..ks.nw |-> e[((i - 1) \div 2) + 1][((i - 1) % 2) + 1]])
    IN IF d % 4 = 0 THEN SubWords(ev, ks.sk[(d \div 4) + 1]) ELSE ev

Encrypt(ks, p) ==
    LET ds == [i \in 1..ks.nr |-> i - 1]
        v  == FoldLeft(LAMBDA s, d : Round(ks, s, d), BytesToWords(p), ds)
    IN WordsToBytes(AddWords(v, ks.sk[(ks.nr \div 4) + 1]))

Decrypt(ks, c) ==
    LET ds == [i \in 1..ks.nr |-> i - 1]
        v  == SubWords(BytesToWords(c), ks.sk[(ks.nr \div 4) + 1])
    IN WordsToBytes(FoldRight(LAMBDA d, s : InvRound(ks, s, d), ds, v))

\* ------------------------------------------------- conformance interface
ThreefishSched(type, key, x) ==
    LET p  == Params(type)
        tw == BytesToWords(IF Len(x) = 0 THEN Zeros(16) ELSE x)
    IN [nw |-> p.nw, nr |-> p.nr, R |-> p.R, pi |-> p.pi, ipi |-> p.ipi,
        sk |-> Subkeys(p.nw, p.nr, BytesToWords(key), tw)]
ThreefishEnc(ks, in) == Encrypt(ks, in)
ThreefishDec(ks, in) == Decrypt(ks, in)
=============================================================================
