--------------------------- MODULE BlockCipherAPI ---------------------------
(***************************************************************************)
(* L1: the API state machine of a family of cipher types {both, enc, dec}  *)
(* with conversions From<Enc> / From<&Enc>, Clone, Drop and two backend    *)
(* arms selected at construction (the AES autodetect union; families       *)
(* without arms or conversions are the sub-machine with one arm / one      *)
(* kind).  The cipher function is abstract: a keyed permutation family     *)
(* chosen nondeterministically in Init.                                    *)
(*                                                                         *)
(* What the code keeps per instance is modelled explicitly: the expanded   *)
(* encryption keys `ek`, the decryption keys `dk` (derived from `ek` on    *)
(* construction *and* on conversion), the arm they live in, and the token  *)
(* that says which arm is live.  Every use reads the arm named by the      *)
(* token; clone copies the live arm; drop erases the live arm.  The        *)
(* invariants say that this bookkeeping computes the right function.       *)
(*                                                                         *)
(* TLC explores all operation sequences up to MaxOps over MaxInst slots;   *)
(* the history variable `hist` (hidden from the fingerprint by VIEW) is    *)
(* printed for every transition and replayed against the real types.       *)
(***************************************************************************)
EXTENDS Naturals, Sequences, FiniteSets, TLC, Json

CONSTANTS KeyIds,        \* abstract key spellings, 1..NK
          ClassOf,       \* KeyIds -> class  (two spellings may share a class: canonical equivalence)
          Blocks,        \* abstract blocks 1..NB
          Slots,         \* instance slots
          MaxOps,
          Arms,          \* {"hw","soft"} or {"hw"}
          Kinds          \* {"both","enc","dec"} or {"both"}

VARIABLES inst,    \* slot -> NoInst or [kind, cls, tok, ek, dk]
          dead,    \* slot -> which union arms of the slot's storage hold key material (live or after drop)
          perm,    \* class -> permutation of Blocks (a function)
          nops,
          last,    \* the last observation [op, slot, in, out] or NoObs
          hist     \* history of operations (JSON-able records), hidden by VIEW

vars == <<inst, dead, perm, nops, last, hist>>
view == <<inst, dead, perm, nops, last>>
\* without the operation counter the abstract state space is finite: with this VIEW and a large MaxOps TLC visits
\* every reachable configuration, i.e. the invariants hold after operation sequences of ANY length (MC_API_full.cfg)
viewfull == <<inst, dead, perm, last>>

NoInst == [kind |-> "none"]
NoObs == [op |-> "none"]
Classes == {ClassOf[k] : k \in KeyIds}
Perms == {f \in [Blocks -> Blocks] : \A a, b \in Blocks : f[a] = f[b] => a = b}

\* tokens for expanded keys: which class they encode and in which arm they are stored
EK(c, a) == [t |-> "ek", cls |-> c, arm |-> a]
DK(c, a) == [t |-> "dk", cls |-> c, arm |-> a]
None == [t |-> "none"]
\* key expansion and the derivation of decryption keys from encryption keys (inv_keys)
Expand(c, a) == EK(c, a)
InvKeys(ek) == DK(ek.cls, ek.arm)

Init ==
    /\ inst = [s \in Slots |-> NoInst]
    /\ dead = [s \in Slots |-> {}]
    /\ perm \in [Classes -> Perms]
    /\ nops = 0
    /\ last = NoObs
    /\ hist = <<>>

Live(s) == inst[s].kind # "none"
Free(s) == inst[s].kind = "none"
Step(h) == /\ nops < MaxOps /\ nops' = nops + 1 /\ hist' = Append(hist, h)

\* construct from a key: detection picks the arm `a`, the token records it
New(s, k, kind, a) ==
    /\ Free(s)
    /\ LET ek == Expand(ClassOf[k], a) IN
       inst' = [inst EXCEPT ![s] = [kind |-> kind, cls |-> ClassOf[k], tok |-> a,
                                    ek |-> IF kind = "dec" THEN None ELSE ek,
                                    dk |-> IF kind = "enc" THEN None ELSE InvKeys(ek)]]
    /\ dead' = [dead EXCEPT ![s] = {a}]
    /\ UNCHANGED perm /\ last' = NoObs
    /\ Step([op |-> "new", i |-> s, k |-> k, kind |-> kind, arm |-> a])

\* construction from a slice of a length the algorithm does not define: the error is returned, nothing is created
\* and nothing else is disturbed (C11)
NewBadLen(s, kind) ==
    /\ Free(s)
    /\ UNCHANGED <<inst, dead, perm>> /\ last' = NoObs
    /\ Step([op |-> "new_bad", i |-> s, kind |-> kind])

\* checked construction: a weak key is refused (nothing created), any other key behaves exactly like New (C13)
NewChecked(s, k, kind, a, weak) ==
    /\ Free(s)
    /\ IF weak
       THEN UNCHANGED <<inst, dead>>
       ELSE LET ek == Expand(ClassOf[k], a) IN
            /\ inst' = [inst EXCEPT ![s] = [kind |-> kind, cls |-> ClassOf[k], tok |-> a,
                                            ek |-> IF kind = "dec" THEN None ELSE ek,
                                            dk |-> IF kind = "enc" THEN None ELSE InvKeys(ek)]]
            /\ dead' = [dead EXCEPT ![s] = {a}]
    /\ UNCHANGED perm /\ last' = NoObs
    /\ Step([op |-> "new_checked", i |-> s, k |-> k, kind |-> kind, arm |-> a, weak |-> weak])

\* clone copies the arm named by the token
Clone(s, t) ==
    /\ Live(s) /\ Free(t)
    /\ inst' = [inst EXCEPT ![t] = inst[s]]
    /\ dead' = [dead EXCEPT ![t] = {inst[s].tok}]
    /\ UNCHANGED perm /\ last' = NoObs
    /\ Step([op |-> "clone", src |-> s, i |-> t])

\* t.clone_from(&s) for two live instances of one type: the value in t is dropped (its arm is erased) and the storage
\* is refilled with a copy of s, arm and token included - a separate code path from Clone when written by hand
CloneFrom(s, t) ==
    /\ Live(s) /\ Live(t) /\ s # t /\ inst[s].kind = inst[t].kind
    /\ inst' = [inst EXCEPT ![t] = inst[s]]
    /\ dead' = [dead EXCEPT ![t] = (dead[t] \ {inst[t].tok}) \cup {inst[s].tok}]
    /\ UNCHANGED perm /\ last' = NoObs
    /\ Step([op |-> "clone_from", src |-> s, i |-> t])

\* From<Enc> (by value: consumes the source) / From<&Enc>: derive dk from the source's ek, keep the token
FromEnc(s, t, kind, byRef) ==
    /\ Live(s) /\ inst[s].kind = "enc" /\ kind \in {"both", "dec"}
    /\ IF byRef THEN Free(t) ELSE t = s
    /\ inst' = [inst EXCEPT ![t] = [kind |-> kind, cls |-> inst[s].cls, tok |-> inst[s].tok,
                                    ek |-> IF kind = "dec" THEN None ELSE inst[s].ek,
                                    dk |-> InvKeys(inst[s].ek)]]
    \* by value the Enc instance is consumed (its destructor runs at the end of From::from)
    /\ dead' = [dead EXCEPT ![t] = {inst[s].tok}]
    /\ UNCHANGED perm /\ last' = NoObs
    /\ Step([op |-> "from", src |-> s, i |-> (IF byRef THEN t ELSE s), to |-> kind, by |-> (IF byRef THEN "ref" ELSE "value")])

PermInv(c, y) == CHOOSE x \in Blocks : perm[c][x] = y
\* a use dispatches on the token and reads the keys of that arm
Enc(s, b) ==
    /\ Live(s) /\ inst[s].ek # None
    /\ last' = [op |-> "enc", slot |-> s, in |-> b, out |-> perm[inst[s].ek.cls][b], arm |-> inst[s].ek.arm]
    /\ UNCHANGED <<inst, dead, perm>>
    /\ Step([op |-> "enc", i |-> s, b |-> b])
Dec(s, b) ==
    /\ Live(s) /\ inst[s].dk # None
    /\ last' = [op |-> "dec", slot |-> s, in |-> b, out |-> PermInv(inst[s].dk.cls, b), arm |-> inst[s].dk.arm]
    /\ UNCHANGED <<inst, dead, perm>>
    /\ Step([op |-> "dec", i |-> s, b |-> b])
\* multi-block call of n blocks starting at block b (the chunking loop itself is MC_Blocks)
EncN(s, n, b) ==
    /\ Live(s) /\ inst[s].ek # None
    /\ last' = NoObs /\ UNCHANGED <<inst, dead, perm>>
    /\ Step([op |-> "encn", i |-> s, n |-> n, b |-> b])
DecN(s, n, b) ==
    /\ Live(s) /\ inst[s].dk # None
    /\ last' = NoObs /\ UNCHANGED <<inst, dead, perm>>
    /\ Step([op |-> "decn", i |-> s, n |-> n, b |-> b])

\* drop erases the arm named by the token (zeroize feature)
Drop(s) ==
    /\ Live(s)
    /\ dead' = [dead EXCEPT ![s] = dead[s] \ {inst[s].tok}]
    /\ inst' = [inst EXCEPT ![s] = NoInst]
    /\ UNCHANGED perm /\ last' = NoObs
    /\ Step([op |-> "drop", i |-> s])

NSizes == {0, 1, 2, 3, 4}    \* abstract batch sizes: 0, <par, =par, par+1, 2par+1
Next ==
    \/ \E s \in Slots, k \in KeyIds, kind \in Kinds, a \in Arms : New(s, k, kind, a)
    \/ \E s \in Slots, kind \in Kinds : NewBadLen(s, kind)
    \/ \E s \in Slots, k \in KeyIds, a \in Arms, w \in BOOLEAN : NewChecked(s, k, "both", a, w)
    \/ \E s, t \in Slots : Clone(s, t)
    \/ \E s, t \in Slots : CloneFrom(s, t)
    \/ \E s, t \in Slots, kind \in {"both", "dec"}, r \in BOOLEAN : FromEnc(s, t, kind, r)
    \/ \E s \in Slots, b \in Blocks : Enc(s, b) \/ Dec(s, b)
    \/ \E s \in Slots, n \in NSizes : EncN(s, n, 1) \/ DecN(s, n, 1)
    \/ \E s \in Slots : Drop(s)

Spec == Init /\ [][Next]_vars

\* ---------------------------------------------------------------- invariants
TypeOK ==
    /\ \A s \in Slots : inst[s].kind \in {"none"} \cup Kinds
    /\ nops \in 0..MaxOps

\* the keys an instance holds encode the instance's own key class ...
KeysMatch == \A s \in Slots : Live(s) =>
    /\ inst[s].ek # None => inst[s].ek.cls = inst[s].cls
    /\ inst[s].dk # None => inst[s].dk.cls = inst[s].cls
\* ... and live in the arm the token names: what was written at construction is what every use reads (C15)
ArmStable == \A s \in Slots : Live(s) =>
    /\ inst[s].ek # None => inst[s].ek.arm = inst[s].tok
    /\ inst[s].dk # None => inst[s].dk.arm = inst[s].tok
KindShape == \A s \in Slots : Live(s) =>
    /\ (inst[s].ek = None) <=> (inst[s].kind = "dec")
    /\ (inst[s].dk = None) <=> (inst[s].kind = "enc")
    \* decryption uses keys that went through inv_keys, encryption the expanded keys themselves
    /\ inst[s].ek # None => inst[s].ek.t = "ek"
    /\ inst[s].dk # None => inst[s].dk.t = "dk"
\* every observation equals the class permutation (C12, C15, C03): result depends on key class and input only
Functional == last.op = "enc" => last.out = perm[inst[last.slot].cls][last.in]
Inverse    == last.op = "dec" => perm[inst[last.slot].cls][last.out] = last.in          \* (C01)
\* two live instances of one class are interchangeable, whatever their kind, arm, route or spelling (C11, C12)
CanonAgreement == \A s, t \in Slots : (Live(s) /\ Live(t) /\ inst[s].cls = inst[t].cls) =>
    \A b \in Blocks :
        /\ (inst[s].ek # None /\ inst[t].ek # None) => perm[inst[s].ek.cls][b] = perm[inst[t].ek.cls][b]
        /\ (inst[s].ek # None /\ inst[t].dk # None) => PermInv(inst[t].dk.cls, perm[inst[s].ek.cls][b]) = b
\* dropped storage holds no key material in any arm (C16); live storage holds it exactly in the token's arm
Erased == \A s \in Slots : IF Free(s) THEN dead[s] = {} ELSE dead[s] = {inst[s].tok}

\* ------------------------------------------------- scenario emission (spec -> impl)
\* evaluated for every transition TLC generates; prints the shortest path to the source state plus this edge
EmitScenario == PrintT(<<"SCEN", ToJson(hist')>>)
=============================================================================
