-------------------------------- MODULE RC5 --------------------------------
(***************************************************************************)
(* RC5-w/r/b as defined in R. Rivest, "The RC5 Encryption Algorithm"       *)
(* (FSE 1994, revised 1997): word size w bits, r rounds, b key bytes;      *)
(* block = two w-bit words A, B (little-endian bytes).                     *)
(*                                                                         *)
(* A w-bit word is a Words.tla tuple of limbs, least significant first:    *)
(* 16-bit limbs for w >= 16 and a single 8-bit limb for w = 8.  All "+"    *)
(* are mod 2^w, "<<<" rotates left by the amount taken mod w (the low      *)
(* lg(w) bits of the word that gives the amount).                          *)
(*                                                                         *)
(* Magic constants P_w = Odd((e - 2) 2^w), Q_w = Odd((phi - 1) 2^w) where  *)
(* Odd(x) is the odd integer nearest to x: w = 16, 32, 64 are printed in   *)
(* the paper; w = 8 and w = 128 were computed with 200-digit decimal       *)
(* arithmetic (python decimal) from e and phi, and agree with              *)
(* draft-krovetz-rc6-rc5-vectors-00; they are pinned here (TLC cannot      *)
(* compute e) and validated by the w = 8 and w = 128 KATs.                 *)
(*                                                                         *)
(* KATs (spec/kat/RC5.ndjson): the five RC5-32/12/16 examples of Rivest's  *)
(* paper; the six vectors of draft-krovetz-rc6-rc5-vectors-00 (RC5-8/12/4, *)
(* 16/16/8, 32/12/16, 32/16/16, 64/24/24, 128/28/32) as quoted in          *)
(* /repo/rc5/tests/mod.rs; three RFC 2040 section 9 RC5-CBC vectors (first *)
(* block, ECB input = IV xor P) for 32/12/1, 32/12/16, 32/16/16.  All      *)
(* cross-checked with a textbook python model.                             *)
(***************************************************************************)
EXTENDS Naturals, Sequences, Bitwise, TLC, Words

\* ----------------------------------------------------------- parameters
\* type name |-> <<w, r, b>>   (TLC cannot take a string apart, so the table
\* is explicit; a record is a function on its field-name strings)
ParamTable == [
    RC5_8_12_4    |-> <<8, 12, 4>>,
    RC5_16_16_8   |-> <<16, 16, 8>>,
    RC5_32_12_16  |-> <<32, 12, 16>>,
    RC5_32_16_16  |-> <<32, 16, 16>>,
    RC5_64_24_24  |-> <<64, 24, 24>>,
    RC5_128_28_32 |-> <<128, 28, 32>>,
    RC5_32_0_16   |-> <<32, 0, 16>>,
    RC5_16_255_8  |-> <<16, 255, 8>>,
    RC5_32_12_0   |-> <<32, 12, 0>>,
    RC5_32_12_1   |-> <<32, 12, 1>>,
    RC5_32_12_255 |-> <<32, 12, 255>>,
    RC5_32_12_7   |-> <<32, 12, 7>>,
    RC5_64_12_13  |-> <<64, 12, 13>>,
    RC5_128_4_5   |-> <<128, 4, 5>>,
    RC5_8_1_3     |-> <<8, 1, 3>>,
    RC5_16_2_1    |-> <<16, 2, 1>>,
    RC5_8_255_255 |-> <<8, 255, 255>>,
    RC5_128_255_16 |-> <<128, 255, 16>>,
    RC5_64_0_8 |-> <<64, 0, 8>>,
    RC5_16_1_0 |-> <<16, 1, 0>>,
    RC5_128_12_255 |-> <<128, 12, 255>>,
    RC5_64_20_9 |-> <<64, 20, 9>>,
    RC5_8_0_0 |-> <<8, 0, 0>>,
    RC5_16_16_3 |-> <<16, 16, 3>>,
    RC5_32_100_16 |-> <<32, 100, 16>>,
    RC5_32_12_104 |-> <<32, 12, 104>>,
    RC5_64_205_32 |-> <<64, 205, 32>>,
    RC5_16_110_200 |-> <<16, 110, 200>>,
    RC5_8_127_10 |-> <<8, 127, 10>>,
    RC5_32_128_16 |-> <<32, 128, 16>>,
    RC5_64_126_99 |-> <<64, 126, 99>>,
    RC5_16_129_101 |-> <<16, 129, 101>>,
    RC5_128_209_109 |-> <<128, 209, 109>>,
    RC5_32_254_8 |-> <<32, 254, 8>> ]

\* limb modulus and lg(w) for word size w
Mod(w) == IF w = 8 THEN 256 ELSE 65536
Lg(w) == CASE w = 8 -> 3 [] w = 16 -> 4 [] w = 32 -> 5 [] w = 64 -> 6 [] w = 128 -> 7

\* magic constants, written most significant 16 bits first
P(w) == CASE w = 8   -> <<\hb7>>
          [] w = 16  -> <<\hb7e1>>
          [] w = 32  -> Rev(<<\hb7e1, \h5163>>)
          [] w = 64  -> Rev(<<\hb7e1, \h5162, \h8aed, \h2a6b>>)
          [] w = 128 -> Rev(<<\hb7e1, \h5162, \h8aed, \h2a6a, \hbf71, \h5880, \h9cf4, \hf3c7>>)
Q(w) == CASE w = 8   -> <<\h9f>>
          [] w = 16  -> <<\h9e37>>
          [] w = 32  -> Rev(<<\h9e37, \h79b9>>)
          [] w = 64  -> Rev(<<\h9e37, \h79b9, \h7f4a, \h7c15>>)
          [] w = 128 -> Rev(<<\h9e37, \h79b9, \h7f4a, \h7c15, \hf39c, \hc060, \h5ced, \hc835>>)

\* u = w/8 little-endian bytes <-> word
ToWord(w, bs) == IF w = 8 THEN bs ELSE LE16(bs)
FromWord(w, x) == IF w = 8 THEN x ELSE ToLE16(x)

\* x <<< y and x >>> y, the amount being y mod w
Rotl(w, x, y) == RotLW(Mod(w), x, LowBits(Mod(w), y, Lg(w)))
Rotr(w, x, y) == RotRW(Mod(w), x, LowBits(Mod(w), y, Lg(w)))
Plus(w, x, y)  == AddW(Mod(w), x, y)
Minus(w, x, y) == SubW(Mod(w), x, y)

\* ------------------------------------------------------------- iteration
\* For(Step, st, lo, hi):  "for k = lo to hi do st = Step(st, k)".
\* This is plain iteration; it is written by bisection only because TLC's
\* evaluation cost grows quadratically with the recursion depth, and the loops
\* below run up to 3 * 512 times.
RECURSIVE For(_, _, _, _)
For(Step(_, _), st, lo, hi) ==
    IF lo > hi THEN st
    ELSE IF lo = hi THEN Step(st, lo)
    ELSE LET mid == (lo + hi) \div 2
         IN For(Step, For(Step, st, lo, mid), mid + 1, hi)

\* ----------------------------------------------------------- key expansion
\* Step 1: copy the secret key K[0..b-1] into L[0..c-1], c = max(1, ceil(8b/w)),
\* little-endian, zero-padding the last word (b = 0: c = 1, L[0] = 0).
KeyWords(w, key) ==
    LET u == w \div 8
        b == Len(key)
        c == IF b = 0 THEN 1 ELSE (b + u - 1) \div u
        padded == key \o Zeros(c * u - b)
    IN TLCEval([i \in 1..c |-> ToWord(w, SubSeqB(padded, (i - 1) * u + 1, i * u))])

\* Step 2: S[0] = P_w; S[i] = S[i-1] + Q_w for i = 1..t-1, t = 2(r+1)
\* (S is a 1-based tuple: S[i] is S[i + 1])
InitS(w, t) == For(LAMBDA S, i : TLCEval(Append(S, Plus(w, S[i], Q(w)))), <<P(w)>>, 1, t - 1)

\* Step 3: i = j = 0; A = B = 0; do 3 * max(t, c) times:
\*     A = S[i] = (S[i] + A + B) <<< 3;
\*     B = L[j] = (L[j] + A + B) <<< (A + B);
\*     i = (i + 1) mod t;  j = (j + 1) mod c
\* One step, number k = 0, 1, ... (so i = k mod t, j = k mod c), on the state
\* st = <<S, L, A, B>>:
MixStep(w, st, k) ==
    LET S == st[1]  L == st[2]  A == st[3]  B == st[4]
        i == k % Len(S)
        j == k % Len(L)
        three == NatW(Mod(w), 3, Len(A))
        A2 == Rotl(w, Plus(w, Plus(w, S[i + 1], A), B), three)
        AB == Plus(w, A2, B)
        B2 == Rotl(w, Plus(w, L[j + 1], AB), AB)
    IN TLCEval(<<[S EXCEPT ![i + 1] = A2], [L EXCEPT ![j + 1] = B2], A2, B2>>)

Max(a, b) == IF a > b THEN a ELSE b

ExpandKey(w, r, key) ==
    LET L == KeyWords(w, key)
        t == 2 * (r + 1)
        zero == ZeroW(Len(P(w)))
    IN For(LAMBDA st, k : MixStep(w, st, k), <<InitS(w, t), L, zero, zero>>, 0, 3 * Max(t, Len(L)) - 1)[1]

\* -------------------------------------------------------------- encryption
\*   A = A + S[0];  B = B + S[1];
\*   for i = 1 to r:  A = ((A xor B) <<< B) + S[2i];  B = ((B xor A) <<< A) + S[2i+1]
\* state AB = <<A, B>>
EncRound(w, S, AB, i) ==
    LET A2 == Plus(w, Rotl(w, XorW(AB[1], AB[2]), AB[2]), S[2 * i + 1])
        B2 == Plus(w, Rotl(w, XorW(AB[2], A2), A2), S[2 * i + 2])
    IN TLCEval(<<A2, B2>>)
Encrypt(w, r, S, AB) ==
    For(LAMBDA st, i : EncRound(w, S, st, i), <<Plus(w, AB[1], S[1]), Plus(w, AB[2], S[2])>>, 1, r)

\*   for i = r downto 1:  B = ((B - S[2i+1]) >>> A) xor A;  A = ((A - S[2i]) >>> B) xor B
\*   B = B - S[1];  A = A - S[0]
DecRound(w, S, AB, i) ==
    LET B2 == XorW(Rotr(w, Minus(w, AB[2], S[2 * i + 2]), AB[1]), AB[1])
        A2 == XorW(Rotr(w, Minus(w, AB[1], S[2 * i + 1]), B2), B2)
    IN TLCEval(<<A2, B2>>)
Decrypt(w, r, S, AB) ==
    \* the k-th iteration (k = 1..r) is round i = r + 1 - k
    LET st == For(LAMBDA s, k : DecRound(w, S, s, r + 1 - k), AB, 1, r)
    IN <<Minus(w, st[1], S[1]), Minus(w, st[2], S[2])>>

\* ------------------------------------------------- conformance interface
\* the block is the little-endian bytes of A followed by those of B
HalfA(w, in) == ToWord(w, SubSeqB(in, 1, w \div 8))
HalfB(w, in) == ToWord(w, SubSeqB(in, w \div 8 + 1, w \div 4))
Out(w, AB) == FromWord(w, AB[1]) \o FromWord(w, AB[2])

RC5Sched(type, key, x) ==
    LET p == ParamTable[type] IN [w |-> p[1], r |-> p[2], S |-> ExpandKey(p[1], p[2], key)]
RC5Enc(ks, in) ==
    LET w == ks.w IN Out(w, Encrypt(w, ks.r, ks.S, <<HalfA(w, in), HalfB(w, in)>>))
RC5Dec(ks, in) ==
    LET w == ks.w IN Out(w, Decrypt(w, ks.r, ks.S, <<HalfA(w, in), HalfB(w, in)>>))
=============================================================================
