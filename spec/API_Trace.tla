----------------------------- MODULE API_Trace -----------------------------
(***************************************************************************)
(* L3 trace specification for the API state machine (layer L1).            *)
(*                                                                         *)
(* The trace is an NDJSON file of events recorded from the real code (one  *)
(* per public call, logged at the call's return, also on the error and     *)
(* panic path).  The cipher function is abstract here: per key class       *)
(* (Catalogue!Class) the specification *learns* a partial bijection        *)
(* perm[class] from the observations and accepts an event only if it is    *)
(* consistent with everything seen before in the same run -- through any   *)
(* instance, clone, conversion, entry point, batch lane, thread, backend   *)
(* arm, build configuration or profile that shares the class.  That one    *)
(* rule decides C01, C03, C04, C12, C15, C20 (result part); the remaining  *)
(* actions decide C11 (key lengths), C13 (weak keys), C16 (erasure), C19   *)
(* (names) and the totality part of C20 (no action accepts a panic).       *)
(***************************************************************************)
EXTENDS Naturals, Sequences, FiniteSets, TLC, Json, IOUtils, Catalogue, NameTokens

VARIABLES tpos,       \* next line to consume
          inst,    \* id -> [type, class]              live instances
          perm,    \* class -> set of <<plain, cipher>> learned partial bijection
          lanes,   \* <<class, dir, block>> seen as a lane of a multi-block call      (obligation)
          seen1,   \* <<class, dir, block>> seen through a single-block call
          names,   \* type -> Debug text seen so far (key independence)
          zimgs    \* storage images of the current zeroize run

vars == <<tpos, inst, perm, lanes, seen1, names, zimgs>>

Rec == ndJsonDeserialize(IOEnv.TRACE)
N == Len(Rec)

Init == /\ tpos = 1 /\ inst = <<>> /\ perm = <<>> /\ lanes = {} /\ seen1 = {} /\ names = <<>> /\ zimgs = <<>>

\* an event tagged `known` by the runner (known_findings.json) is only consumed by KnownFinding
IsEvent(k) == tpos <= N /\ Rec[tpos].ev = k /\ "known" \notin DOMAIN Rec[tpos] /\ tpos' = tpos + 1

Put(f, k, v) == [x \in (DOMAIN f) \cup {k} |-> IF x = k THEN v ELSE f[x]]
Del(f, k) == [x \in (DOMAIN f) \ {k} |-> f[x]]
PermOf(c) == IF c \in DOMAIN perm THEN perm[c] ELSE {}

\* blocks of an instance keyed with the complemented representative enter the class complemented (DES only)
Norm(f, b) == IF f THEN FlipBlock(b) ELSE b

\* partial-bijection consistency of one more observation
Consistent(P, pt, ct) == \A p \in P : (p[1] = pt) <=> (p[2] = ct)

\* ------------------------------------------------------------ construction
Expected(e) ==
    CASE e.via = "slice" -> IF Len(e.key) \in KeyLens(e.type) THEN "ok" ELSE "invalid_length"
      [] e.via = "checked" -> IF Weak(e.type, e.key) THEN "weak_key" ELSE "ok"
      [] OTHER -> "ok"                              \* new, tweak, tweak_u64, eff, recv

New ==
    /\ IsEvent("new")
    /\ LET e == Rec[tpos] IN
       /\ e.type \in TypeNames
       \* the fixed-size constructor takes KeySize bytes, whatever KeySize is: it must be a length the algorithm defines
       /\ e.via \in {"new", "checked"} => Len(e.key) \in KeyLens(e.type)
       /\ e.out = Expected(e)                       \* never "panic" (C11, C20)
       /\ IF e.out = "ok"
          THEN inst' = Put(inst, e.id, [type |-> e.type, class |-> Class(e.type, e.key, e.x), flip |-> Flipped(e.type, e.key)])
          ELSE UNCHANGED inst
    /\ UNCHANGED <<perm, lanes, seen1, names, zimgs>>

WeakTest ==
    /\ IsEvent("weak")
    /\ LET e == Rec[tpos] IN e.out = (IF Weak(e.type, e.key) THEN "weak" ELSE "ok")
    /\ UNCHANGED <<inst, perm, lanes, seen1, names, zimgs>>

Clone ==
    /\ IsEvent("clone")
    /\ LET e == Rec[tpos] IN
       /\ e.out = "ok"
       /\ e.src \in DOMAIN inst
       /\ inst' = Put(inst, e.id, inst[e.src])
    /\ UNCHANGED <<perm, lanes, seen1, names, zimgs>>

From ==
    /\ IsEvent("from")
    /\ LET e == Rec[tpos] IN
       /\ e.out = "ok"
       /\ e.src \in DOMAIN inst
       /\ e.to \in ConvTargets(inst[e.src].type)
       /\ LET ni == [type |-> e.to, class |-> inst[e.src].class, flip |-> inst[e.src].flip] IN
          inst' = IF e.by = "value" THEN Put(Del(inst, e.src), e.id, ni) ELSE Put(inst, e.id, ni)
    /\ UNCHANGED <<perm, lanes, seen1, names, zimgs>>

Drop ==
    /\ IsEvent("drop")
    /\ Rec[tpos].out = "ok"
    /\ inst' = IF Rec[tpos].id \in DOMAIN inst THEN Del(inst, Rec[tpos].id) ELSE inst
    /\ UNCHANGED <<perm, lanes, seen1, names, zimgs>>

\* --------------------------------------------------------- single blocks
One(dir) ==
    /\ IsEvent(dir)
    /\ LET e == Rec[tpos] IN
       /\ e.outcome = "ok"                          \* totality (C20)
       /\ e.id \in DOMAIN inst
       /\ LET t == inst[e.id].type
              c == inst[e.id].class
              f == inst[e.id].flip
              pt == Norm(f, IF dir = "enc" THEN e.in ELSE e.out)
              ct == Norm(f, IF dir = "enc" THEN e.out ELSE e.in)
          IN /\ Kind(t) \in {"both", dir}
             /\ Len(e.in) = BlockLen(t) /\ Len(e.out) = BlockLen(t)
             /\ e.in_after = (IF e.shape \in {"inplace", "u64"} THEN e.out ELSE e.in)
             /\ Consistent(PermOf(c), pt, ct)
             /\ perm' = Put(perm, c, PermOf(c) \cup {<<pt, ct>>})
             /\ seen1' = seen1 \cup {<<c, dir, e.in>>}
    /\ UNCHANGED <<inst, lanes, names, zimgs>>

\* ------------------------------------------------------------ multi-block
RECURSIVE AddLanes(_, _, _, _, _, _)
\* fold the lanes of a batch into P, checking each against everything before it
AddLanes(P, f, dir, ins, outs, j) ==
    IF j > Len(ins) THEN [ok |-> TRUE, P |-> P]
    ELSE LET pt == Norm(f, IF dir = "enc" THEN ins[j] ELSE outs[j])
             ct == Norm(f, IF dir = "enc" THEN outs[j] ELSE ins[j])
         IN IF Consistent(P, pt, ct) THEN AddLanes(P \cup {<<pt, ct>>}, f, dir, ins, outs, j + 1)
            ELSE [ok |-> FALSE, P |-> {}]

AllFill(blocks, v) == \A j \in 1..Len(blocks) : \A i \in 1..Len(blocks[j]) : blocks[j][i] = v

Blocks ==
    /\ IsEvent("blocks")
    /\ LET e == Rec[tpos] IN
       /\ e.outcome = "ok"
       /\ e.id \in DOMAIN inst
       /\ e.guard_bad = 0                           \* nothing outside the designated output is written
       /\ e.n = Len(e.in)
       /\ e.par >= 1
       /\ LET t == inst[e.id].type
              c == inst[e.id].class
          IN /\ Kind(t) \in {"both", e.dir}
             /\ \A j \in 1..Len(e.in) : Len(e.in[j]) = BlockLen(t)
             /\ IF e.len_err
                THEN \* lengths differ: error reported, input untouched, output untouched (fill 0x5A)
                     /\ e.on # e.n
                     /\ e.in_after = e.in
                     /\ Len(e.out) = e.on /\ AllFill(e.out, 90)
                     /\ UNCHANGED <<perm, lanes>>
                ELSE /\ e.on = e.n
                     /\ Len(e.out) = e.n
                     /\ e.in_after = (IF e.shape = "inplace" THEN e.out ELSE e.in)
                     /\ LET r == AddLanes(PermOf(c), inst[e.id].flip, e.dir, e.in, e.out, 1) IN
                        /\ r.ok
                        /\ perm' = Put(perm, c, r.P)
                     /\ lanes' = lanes \cup {<<c, e.dir, e.in[j]>> : j \in 1..Len(e.in)}
    /\ UNCHANGED <<inst, seen1, names, zimgs>>

\* ------------------------------------------------------ BelT wide block
WBlock ==
    /\ IsEvent("wblock")
    /\ LET e == Rec[tpos]
           c == <<"wblock", e.key, e.len>>
           pt == IF e.dir = "enc" THEN e.in ELSE e.out
           ct == IF e.dir = "enc" THEN e.out ELSE e.in
       IN /\ e.guard_bad = 0
          /\ Len(e.in) = e.len /\ Len(e.out) = e.len
          /\ IF e.len < 32
             THEN e.outcome = "invalid_length" /\ e.out = e.in /\ UNCHANGED perm
             ELSE /\ e.outcome = "ok"
                  /\ Consistent(PermOf(c), pt, ct)
                  /\ perm' = Put(perm, c, PermOf(c) \cup {<<pt, ct>>})
    /\ UNCHANGED <<inst, lanes, seen1, names, zimgs>>

\* ------------------------------------------------------------------ names
Lower(s) == [i \in 1..Len(s) |-> IF s[i] >= 65 /\ s[i] <= 90 THEN s[i] + 32 ELSE s[i]]
IsWordChar(ch) == (ch >= 97 /\ ch <= 122) \/ (ch >= 48 /\ ch <= 57) \/ ch = 95
MatchAt(s, tok, i) == \A j \in 1..Len(tok) : s[i + j - 1] = tok[j]
\* tok occurs in s as a whole word
ContainsWord(s, tok) ==
    \E i \in 1..(Len(s) - Len(tok) + 1) :
        /\ MatchAt(s, tok, i)
        /\ (IF i = 1 THEN TRUE ELSE ~IsWordChar(s[i - 1]))
        /\ (IF i + Len(tok) > Len(s) THEN TRUE ELSE ~IsWordChar(s[i + Len(tok)]))
TokensOk(text, alts) ==
    LET s == Lower(text) IN
    \E a \in 1..Len(alts) : \A k \in 1..Len(alts[a]) : ContainsWord(s, alts[a][k])

IsDigit(ch) == ch >= 48 /\ ch <= 57
RECURSIVE NumsFrom(_, _, _, _)
\* the maximal digit groups of s as numbers, left to right
NumsFrom(s, i, cur, inNum) ==
    IF i > Len(s) THEN (IF inNum THEN <<cur>> ELSE <<>>)
    ELSE IF IsDigit(s[i]) THEN NumsFrom(s, i + 1, (IF inNum THEN cur * 10 ELSE 0) + (s[i] - 48), TRUE)
    ELSE (IF inNum THEN <<cur>> ELSE <<>>) \o NumsFrom(s, i + 1, 0, FALSE)
Nums(s) == NumsFrom(s, 1, 0, FALSE)
\* for RC5 the digit groups after the algorithm name are <<5, w, r, b>> ("RC5" itself contributes the 5)
Rc5Nums(t) == <<5>> \o RC5Params[t]

NameOk(t, text, toks) ==
    /\ TokensOk(text, toks[t])
    /\ t \in RC5T => Nums(text) = Rc5Nums(t)

Debug ==
    /\ IsEvent("debug")
    /\ LET e == Rec[tpos] IN
       IF e.outcome = "absent" THEN UNCHANGED names       \* the type has no Debug impl (compile-time fact)
       ELSE LET k == <<e.type, IF "spec" \in DOMAIN e THEN e.spec ELSE "{:?}">> IN   \* one text per type and format spec
            /\ e.outcome = "ok"
            /\ NameOk(e.type, e.text, DebugTokens)
            /\ IF k \in DOMAIN names THEN names[k] = e.text /\ UNCHANGED names
               ELSE names' = Put(names, k, e.text)
    /\ UNCHANGED <<inst, perm, lanes, seen1, zimgs>>

AlgName ==
    /\ IsEvent("algname")
    /\ LET e == Rec[tpos] IN
       IF e.outcome = "absent" THEN TRUE
       ELSE e.outcome = "ok" /\ NameOk(e.type, e.text, AlgTokens)
    /\ UNCHANGED <<inst, perm, lanes, seen1, names, zimgs>>

\* ----------------------------------------------------------------- erasure
ZImg ==
    /\ IsEvent("zimg")
    /\ Rec[tpos].outcome = "ok"
    /\ Len(Rec[tpos].before) = Rec[tpos].size /\ Len(Rec[tpos].after) = Rec[tpos].size
    /\ zimgs' = Append(zimgs, [ki |-> Rec[tpos].ki, before |-> Rec[tpos].before, after |-> Rec[tpos].after])
    /\ UNCHANGED <<inst, perm, lanes, seen1, names>>

\* an offset is key-dependent iff it is the same for all images of one key (deterministic, not the fill
\* pattern, not uninitialised padding) and differs between two keys
Stable(o) == \A a, b \in 1..Len(zimgs) : zimgs[a].ki = zimgs[b].ki => zimgs[a].before[o] = zimgs[b].before[o]
KeyDep(o) == Stable(o) /\ \E a, b \in 1..Len(zimgs) : zimgs[a].before[o] # zimgs[b].before[o]
KeyDepSet == IF zimgs = <<>> THEN {} ELSE {o \in 1..Len(zimgs[1].before) : KeyDep(o)}
\* The autodetecting AES types are a union of a large software arm and a small intrinsics arm.  While the intrinsics arm
\* is live, the rest of the union is storage the type never initialises: what it holds is whatever the compiler left there
\* (return-slot scratch, spills), not data of the instance.  Offsets beyond every arm that ever lived in the storage are
\* therefore not the instance's; when a software-arm value lived there at some point (mixed clone_from) all of it is.
AesHwArmBytes(t) == (IF t \in Aes128T THEN 176 ELSE IF t \in Aes192T THEN 208 ELSE 240) *
                    (IF t \in {"Aes128", "Aes192", "Aes256"} THEN 2 ELSE 1)
OwnedBytes(e) ==
    IF "arm" \in DOMAIN e /\ e.arm = "hw" /\ e.type \in AesT
       /\ e.route \notin {"clone_from_onto_soft", "clone_from_onto_hw"}
    THEN AesHwArmBytes(e.type)
    ELSE IF zimgs = <<>> THEN 0 ELSE Len(zimgs[1].before)
ZEnd ==
    /\ IsEvent("zend")
    /\ LET K == {o \in KeyDepSet : o <= OwnedBytes(Rec[tpos])} IN
       IF Rec[tpos].zeroize
       THEN \* every key-dependent offset reads zero after the drop.  (K may legitimately be empty: e.g. RC2 with a
            \* 1-byte key and 8 effective bits expands to the same table for almost every key.)
            \A a \in 1..Len(zimgs) : \A o \in K : zimgs[a].after[o] = 0
       ELSE \* control build without the feature (vacuity guard): the probe must see key material, and it must survive
            /\ (Rec[tpos].klen > 1) => (K # {})
            /\ (Rec[tpos].klen > 1) => \E a \in 1..Len(zimgs) : \E o \in K : zimgs[a].after[o] # 0
    /\ zimgs' = <<>>
    /\ UNCHANGED <<inst, perm, lanes, seen1, names>>

\* --------------------------------------------------------------- run frame
Reset ==
    /\ IsEvent("reset")
    /\ inst' = <<>> /\ perm' = <<>> /\ lanes' = {} /\ seen1' = {} /\ zimgs' = <<>>
    /\ UNCHANGED names

\* a run may only end when every batch lane input was also observed through the single-block entry
\* point in the same class (otherwise the per-lane comparison would be vacuous: malformed trace)
End ==
    /\ IsEvent("end")
    /\ lanes \subseteq seen1
    /\ UNCHANGED <<inst, perm, lanes, seen1, names, zimgs>>

Marker ==
    /\ IsEvent("marker")
    /\ Rec[tpos].send /\ Rec[tpos].sync                        \* cipher values are Send + Sync (C15)
    /\ UNCHANGED <<inst, perm, lanes, seen1, names, zimgs>>

\* compile-time facts of a concrete type as the driver sees them through the traits: block size, array key size,
\* which directions and conversions exist, Clone/Send/Sync - must be what the catalogue says (C11, C12, C15)
TypeInfo ==
    /\ IsEvent("typeinfo")
    /\ LET e == Rec[tpos] IN
       /\ e.type \in TypeNames
       /\ e.bs = BlockLen(e.type)
       /\ e.key_size \in KeyLens(e.type)          \* (which of the accepted lengths KeySize is, is not pinned)
       /\ e.kind = Kind(e.type)
       /\ {e.conv[i] : i \in 1..Len(e.conv)} = ConvTargets(e.type)
       /\ e.send /\ e.sync                       \* (whether a type is Clone is not pinned either: only what a clone computes)
    /\ UNCHANGED <<inst, perm, lanes, seen1, names, zimgs>>

\* events of other layers (checked by the L2 conformance specs) and pure bookkeeping
Ignored == {"haz", "bc", "raw", "send", "eval"}
Skip == tpos <= N /\ Rec[tpos].ev \in Ignored /\ "known" \notin DOMAIN Rec[tpos] /\ tpos' = tpos + 1
        /\ UNCHANGED <<inst, perm, lanes, seen1, names, zimgs>>

\* a recorded, known defect (known_findings.json): consumed without judging it, state unchanged
KnownFinding == tpos <= N /\ "known" \in DOMAIN Rec[tpos] /\ tpos' = tpos + 1
                /\ UNCHANGED <<inst, perm, lanes, seen1, names, zimgs>>

Next == \/ New \/ WeakTest \/ Clone \/ From \/ Drop \/ One("enc") \/ One("dec") \/ Blocks \/ WBlock
        \/ Debug \/ AlgName \/ ZImg \/ ZEnd \/ Reset \/ End \/ Marker \/ TypeInfo \/ Skip \/ KnownFinding
Spec == Init /\ [][Next]_vars

TraceAccepted ==
    LET d == TLCGet("stats").diameter IN
    IF d - 1 = N THEN TRUE
    ELSE /\ PrintT(<<"TRACE_REJECTED", d, N>>)
         /\ FALSE
=============================================================================
