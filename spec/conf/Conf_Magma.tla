------------------------------ MODULE Conf_Magma ------------------------------
EXTENDS Magma, Json, IOUtils
VARIABLES tpos, inst
Rec == ndJsonDeserialize(IOEnv.TRACE)
OSched(t, k, x) == MagmaSched(t, k, x)
OEnc(ks, b) == MagmaEnc(ks, b)
ODec(ks, b) == MagmaDec(ks, b)
ExtraKinds == {}
INSTANCE ConfBase
=============================================================================
