-------------------------------- MODULE Belt --------------------------------
(***************************************************************************)
(* STB 34.101.31 (BelT), written from the standard.                        *)
(*                                                                         *)
(*   * belt-block, section 6.1: encryption 6.1.3, decryption 6.1.4.        *)
(*   * belt-wbl (wide block), sections 6.2.3 (encryption) and 6.2.4        *)
(*     (decryption).                                                       *)
(*                                                                         *)
(* Conventions of the standard: an octet string is the little-endian       *)
(* representation of a number (the first octet is the least significant),  *)
(* so a 128-bit block a || b || c || d is four little-endian 32-bit words, *)
(* the key theta_1 || ... || theta_8 eight of them, <i>_32 / <i>_128 is    *)
(* the number i as 4 / 16 little-endian octets, "Hi" is towards the last   *)
(* octet: RotHi^r is a left rotation of the 32-bit number, ShLo^128 drops  *)
(* the first 16 octets of a word (zeros enter at the end), ShHi^128 drops  *)
(* the last 16 octets (zeros enter at the front).                          *)
(*                                                                         *)
(* A 32-bit word is a pair of 16-bit limbs <<lo, hi>> (Words.tla).         *)
(*                                                                         *)
(* The substitution H (section 6.1.2, table 1) is pinned, laid out like    *)
(* the standard's table: row = high nibble, column = low nibble of the     *)
(* argument (numbers copied from the reference table `H` of                *)
(* /repo/belt-block/src/consts.rs; the tables H5/H13/H21/H29 the code      *)
(* really uses were checked to be its rotations).  The ASSUMEs below check *)
(* that it is a permutation and that it equals the table produced by the   *)
(* generating rule the standard gives for it (H(10) = 00, H(11) = 8E, each *)
(* further value = 116 steps of the 8-bit shift register with feedback     *)
(* mask 0x63 applied to the previous one).                                 *)
(*                                                                         *)
(* KATs (spec/kat/Belt.ndjson): STB 34.101.31 appendix A, table A.1        *)
(* (belt-block encryption), table A.4 (belt-block decryption; both also    *)
(* in /repo/belt-block/tests/mod.rs, which labels the second "A.2"),       *)
(* tables A.6 (belt-wbl encryption, 48 and 47 octets) and A.7 (belt-wbl    *)
(* decryption, 48 and 36 octets) as quoted in the `belt_wblock` test of    *)
(* /repo/belt-block/tests/mod.rs.                                          *)
(***************************************************************************)
EXTENDS Naturals, Sequences, Bitwise, TLC, Words

\* ------------------------------------------------------------ H (table 1)
HRows == <<
    <<177, 148, 186, 200,  10,   8, 245,  59,  54, 109,   0, 142,  88,  74,  93, 228>>,
    <<133,   4, 250, 157,  27, 182, 199, 172,  37,  46, 114, 194,   2, 253, 206,  13>>,
    << 91, 227, 214,  18,  23, 185,  97, 129, 254, 103, 134, 173, 113, 107, 137,  11>>,
    << 92, 176, 192, 255,  51, 195,  86, 184,  53, 196,   5, 174, 216, 224, 127, 153>>,
    <<225,  43, 220,  26, 226, 130,  87, 236, 112,  63, 204, 240, 149, 238, 141, 241>>,
    <<193, 171, 118,  56, 159, 230, 120, 202, 247, 198, 248,  96, 213, 187, 156,  79>>,
    <<243,  60, 101, 123,  99, 124,  48, 106, 221,  78, 167, 121, 158, 178,  61,  49>>,
    << 62, 152, 181, 110,  39, 211, 188, 207,  89,  30,  24,  31,  76,  90, 183, 147>>,
    <<233, 222, 231,  44, 143,  12,  15, 166,  45, 219,  73, 244, 111, 115, 150,  71>>,
    <<  6,   7,  83,  22, 237,  36, 122,  55,  57, 203, 163, 131,   3, 169, 139, 246>>,
    <<146, 189, 155,  28, 229, 209,  65,   1,  84,  69, 251, 201,  94,  77,  14, 242>>,
    <<104,  32, 128, 170,  34, 125, 100,  47,  38, 135, 249,  52, 144,  64,  85,  17>>,
    <<190,  50, 151,  19,  67, 252, 154,  72, 160,  42, 136,  95,  25,  75,   9, 161>>,
    <<126, 205, 164, 208,  21,  68, 175, 140, 165, 132,  80, 191, 102, 210, 232, 138>>,
    <<162, 215,  70,  82,  66, 168, 223, 179, 105, 116, 197,  81, 235,  35,  41,  33>>,
    <<212, 239, 217, 180,  58,  98,  40, 117, 145,  20,  16, 234, 119, 108, 218,  29>> >>

H == TLCEval([x \in 0..255 |-> HRows[(x \div 16) + 1][(x % 16) + 1]])

\* the generating rule: one register step t -> (t >> 1) | parity(t & 0x63) << 7
LfsrStep(t) == (t \div 2) + 128 * ((t + (t \div 2) + (t \div 32) + (t \div 64)) % 2)
RECURSIVE LfsrSteps(_, _)
LfsrSteps(t, k) == IF k = 0 THEN t ELSE LfsrSteps(LfsrStep(t), k - 1)
RECURSIVE HGenFrom(_, _)
\* f: the values generated so far, H(10), H(11), ... in generation order
HGenFrom(f, k) == IF k = 256 THEN f ELSE HGenFrom(Append(f, LfsrSteps(f[k], 116)), k + 1)
HGen == LET g == HGenFrom(<<0, 142>>, 2) IN [x \in 0..255 |-> g[((x + 246) % 256) + 1]]

ASSUME HIsPermutation == {H[x] : x \in 0..255} = 0..255
ASSUME HIsGenerated == H = HGen

\* --------------------------------------------------------------- G_r, keys
M == 65536
\* H applied to each of the four octets of the word
SubH(u) == <<H[u[1] % 256] + 256 * H[u[1] \div 256], H[u[2] % 256] + 256 * H[u[2] \div 256]>>
\* G_r(u) = RotHi^r(H(u_1) || H(u_2) || H(u_3) || H(u_4))
G(r, u) == RotLW(M, SubH(u), r)

Plus(a, b)  == AddW(M, a, b)     \* [+]  mod 2^32
Minus(a, b) == SubW(M, a, b)     \* [-]  mod 2^32
W32Of(i) == <<i, 0>>             \* <i>_32 for the round numbers 1..8

\* octets <-> sequences of 32-bit words
WordsOf(bs) == TLCEval([i \in 1..(Len(bs) \div 4) |-> LE16(SubSeqB(bs, 4*i - 3, 4*i))])
OctetsOf(ws) == TLCEval(ToLE16(ws[1]) \o ToLE16(ws[2]) \o ToLE16(ws[3]) \o ToLE16(ws[4]))

\* K[j] = theta_{((j - 1) mod 8) + 1}, j = 1..56   (theta: the eight key words)
KeyWord(theta, j) == theta[((j - 1) % 8) + 1]

\* ------------------------------------------------- belt-block, 6.1.3/6.1.4
\* step 5 of 6.1.3 for one i; the state is <<a, b, c, d>>
EncStep(th, i, st) ==
    LET a  == st[1]  b == st[2]  c == st[3]  d == st[4]
        b1 == XorW(b, G(5, Plus(a, KeyWord(th, 7*i - 6))))                       \* 1)
        c1 == XorW(c, G(21, Plus(d, KeyWord(th, 7*i - 5))))                      \* 2)
        a1 == Minus(a, G(13, Plus(b1, KeyWord(th, 7*i - 4))))                    \* 3)
        e  == XorW(G(21, Plus(Plus(b1, c1), KeyWord(th, 7*i - 3))), W32Of(i))    \* 4)
        b2 == Plus(b1, e)                                                        \* 5)
        c2 == Minus(c1, e)                                                       \* 6)
        d1 == Plus(d, G(13, Plus(c2, KeyWord(th, 7*i - 2))))                     \* 7)
        b3 == XorW(b2, G(21, Plus(a1, KeyWord(th, 7*i - 1))))                    \* 8)
        c3 == XorW(c2, G(5, Plus(d1, KeyWord(th, 7*i))))                         \* 9)
        \* 10) a <-> b   11) c <-> d   12) b <-> c
        s10 == <<b3, a1, c3, d1>>
        s11 == <<s10[1], s10[2], s10[4], s10[3]>>
        s12 == <<s11[1], s11[3], s11[2], s11[4]>>
    IN TLCEval(s12)

RECURSIVE EncFrom(_, _, _)
EncFrom(th, i, st) == IF i > 8 THEN st ELSE EncFrom(th, i + 1, EncStep(th, i, st))

\* Y = b || d || a || c
BlockEncrypt(th, x) ==
    LET st == EncFrom(th, 1, WordsOf(x)) IN OctetsOf(<<st[2], st[4], st[1], st[3]>>)

\* step 5 of 6.1.4 for one i
DecStep(th, i, st) ==
    LET a  == st[1]  b == st[2]  c == st[3]  d == st[4]
        b1 == XorW(b, G(5, Plus(a, KeyWord(th, 7*i))))                           \* 1)
        c1 == XorW(c, G(21, Plus(d, KeyWord(th, 7*i - 1))))                      \* 2)
        a1 == Minus(a, G(13, Plus(b1, KeyWord(th, 7*i - 2))))                    \* 3)
        e  == XorW(G(21, Plus(Plus(b1, c1), KeyWord(th, 7*i - 3))), W32Of(i))    \* 4)
        b2 == Plus(b1, e)                                                        \* 5)
        c2 == Minus(c1, e)                                                       \* 6)
        d1 == Plus(d, G(13, Plus(c2, KeyWord(th, 7*i - 4))))                     \* 7)
        b3 == XorW(b2, G(21, Plus(a1, KeyWord(th, 7*i - 5))))                    \* 8)
        c3 == XorW(c2, G(5, Plus(d1, KeyWord(th, 7*i - 6))))                     \* 9)
        \* 10) a <-> b   11) c <-> d   12) a <-> d
        s10 == <<b3, a1, c3, d1>>
        s11 == <<s10[1], s10[2], s10[4], s10[3]>>
        s12 == <<s11[4], s11[2], s11[3], s11[1]>>
    IN TLCEval(s12)

RECURSIVE DecFrom(_, _, _)
DecFrom(th, i, st) == IF i < 1 THEN st ELSE DecFrom(th, i - 1, DecStep(th, i, st))

\* X = c || a || d || b
BlockDecrypt(th, y) ==
    LET st == DecFrom(th, 8, WordsOf(y)) IN OctetsOf(<<st[3], st[1], st[4], st[2]>>)

\* ------------------------------------------------ belt-wbl, 6.2.3 / 6.2.4
(***************************************************************************)
(* The word r (|r| >= 256 bits, a whole number L of octets) is read as     *)
(*     r = r_1 || r_2 || ... || r_n,  n = ceil(L/16),                      *)
(*     |r_1| = ... = |r_{n-1}| = 128,  0 < |r_n| <= 128,                   *)
(* and r* names the LAST 128 bits of r (octets L-15..L; when 16 does not   *)
(* divide L it overlaps r_{n-1}).  Encryption, for i = 1, 2, ..., 2n:      *)
(*     1) s  <- r_1 xor r_2 xor ... xor r_{n-1}                            *)
(*     2) r* <- r* xor belt-block(s, K) xor <i>_128                        *)
(*     3) r  <- ShLo^128(r)                                                *)
(*     4) r* <- s                                                          *)
(* Decryption, for i = 2n, ..., 2, 1:                                      *)
(*     1) s  <- r*                                                         *)
(*     2) r  <- ShHi^128(r)                                                *)
(*     3) r* <- r* xor belt-block(s, K) xor <i>_128                        *)
(*     4) r_1 <- s xor r_2 xor ... xor r_{n-1}                             *)
(* The steps are sequential assignments to r: in 4) of the decryption the  *)
(* r_{n-1} that is read is the one after step 3) has rewritten r*.         *)
(***************************************************************************)
NBlocks(L) == (L + 15) \div 16
Ctr128(i) == NatW(256, i, 16)                      \* <i>_128
\* (SubSeq and \o are TLC built-ins on tuples: a round costs a few copies of r, not a loop)
RBlock(r, k) == SubSeq(r, 16*k - 15, 16*k)         \* r_k, k < n
RStar(r) == SubSeq(r, Len(r) - 15, Len(r))
SetRStar(r, v) == SubSeq(r, 1, Len(r) - 16) \o v   \* r* <- v
SetR1(r, v) == v \o SubSeq(r, 17, Len(r))          \* r_1 <- v
ShLo128(r) == SubSeq(r, 17, Len(r)) \o Zeros(16)
ShHi128(r) == Zeros(16) \o SubSeq(r, 1, Len(r) - 16)

RECURSIVE XorRBlocks(_, _, _, _)
\* acc xor r_k xor r_{k+1} xor ... xor r_to
XorRBlocks(r, k, to, acc) ==
    IF k > to THEN acc ELSE XorRBlocks(r, k + 1, to, XorBytes(acc, RBlock(r, k)))

WblEncRound(th, n, i, r) ==
    LET s  == XorRBlocks(r, 2, n - 1, RBlock(r, 1))                                          \* 1)
        r2 == SetRStar(r, XorBytes(XorBytes(RStar(r), BlockEncrypt(th, s)), Ctr128(i)))     \* 2)
        r3 == ShLo128(r2)                                                                    \* 3)
    IN SetRStar(r3, s)                                                                       \* 4)

WblDecRound(th, n, i, r) ==
    LET s  == RStar(r)                                                                       \* 1)
        r2 == ShHi128(r)                                                                     \* 2)
        r3 == SetRStar(r2, XorBytes(XorBytes(RStar(r2), BlockEncrypt(th, s)), Ctr128(i)))   \* 3)
    IN SetR1(r3, XorRBlocks(r3, 2, n - 1, s))                                                \* 4)

RECURSIVE WblEncFrom(_, _, _, _)
WblEncFrom(th, n, i, r) == IF i > 2 * n THEN r ELSE WblEncFrom(th, n, i + 1, WblEncRound(th, n, i, r))
RECURSIVE WblDecFrom(_, _, _, _)
WblDecFrom(th, n, i, r) == IF i < 1 THEN r ELSE WblDecFrom(th, n, i - 1, WblDecRound(th, n, i, r))

\* key: 32 octets; x: at least 32 octets
BeltWBlockEnc(key, x) == LET n == NBlocks(Len(x))  th == TLCEval(WordsOf(key)) IN WblEncFrom(th, n, 1, x)
BeltWBlockDec(key, y) == LET n == NBlocks(Len(y))  th == TLCEval(WordsOf(key)) IN WblDecFrom(th, n, 2 * n, y)

\* ------------------------------------------------- conformance interface
\* the "schedule" is theta_1..theta_8
BeltSched(type, key, extra) == WordsOf(key)
BeltEnc(ks, in) == BlockEncrypt(ks, in)
BeltDec(ks, in) == BlockDecrypt(ks, in)
=============================================================================
