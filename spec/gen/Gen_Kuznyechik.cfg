SPECIFICATION Spec
CONSTANT GenSeed = 1
CHECK_DEADLOCK FALSE
