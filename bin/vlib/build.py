"""Build the driver binary for a configuration from /repo's current working tree."""
import os, shutil, fcntl
from .common import *

# id -> dict(rustflags=[...], features=[...], profile="dev"|"release")
CONFIGS = {
    "default":          dict(rustflags=[], features=["hazmat", "bcrypt"]),
    "release":          dict(rustflags=[], features=["hazmat", "bcrypt"], profile="release"),
    "feat-min":         dict(rustflags=[], features=[]),
    "feat-all":         dict(rustflags=[], features=["zeroize", "hazmat", "bcrypt"]),
    "aes-soft":         dict(rustflags=["--cfg", "aes_force_soft"], features=["hazmat", "bcrypt"]),
    "aes-soft-compact": dict(rustflags=["--cfg", "aes_force_soft", "--cfg", "aes_compact"], features=["hazmat", "bcrypt"]),
    "aes-compact":      dict(rustflags=["--cfg", "aes_compact"], features=["hazmat", "bcrypt"]),
    "kuz-soft":         dict(rustflags=["--cfg", 'kuznyechik_backend="soft"'], features=["hazmat", "bcrypt"]),
    "kuz-compact":      dict(rustflags=["--cfg", 'kuznyechik_backend="compact_soft"'], features=["hazmat", "bcrypt"]),
    # every target feature of this CPU enabled statically (code under cfg(target_feature = ..); upstream CI builds with +aes,+ssse3)
    "native":           dict(rustflags=["-C", "target-cpu=native"], features=["hazmat", "bcrypt"]),
    "native-z":         dict(rustflags=["-C", "target-cpu=native"], features=["zeroize", "hazmat", "bcrypt"]),
    "serpent-loop":     dict(rustflags=["--cfg", "serpent_no_unroll"], features=["hazmat", "bcrypt"]),
    # hook build: detection can be forced off at run time (soft union arm reachable)
    "aes-detect-off":   dict(rustflags=["--cfg", "block_ciphers_verif"], features=["hazmat", "bcrypt"], hook=True),
    "aes-detect-off-z": dict(rustflags=["--cfg", "block_ciphers_verif"], features=["zeroize", "hazmat", "bcrypt"], hook=True),
    "soft-z":           dict(rustflags=["--cfg", "aes_force_soft", "--cfg", 'kuznyechik_backend="soft"'], features=["zeroize", "hazmat", "bcrypt"]),
    "release-soft":     dict(rustflags=["--cfg", "aes_force_soft", "--cfg", 'kuznyechik_backend="soft"', "--cfg", "serpent_no_unroll"], features=["hazmat", "bcrypt"], profile="release"),
    "release-compact":  dict(rustflags=["--cfg", "aes_force_soft", "--cfg", "aes_compact", "--cfg", 'kuznyechik_backend="compact_soft"'], features=["hazmat", "bcrypt"], profile="release"),
    "dev-soft":         dict(rustflags=["--cfg", "aes_force_soft", "--cfg", 'kuznyechik_backend="soft"', "--cfg", "serpent_no_unroll"], features=["hazmat", "bcrypt"]),
    "dev-compact":      dict(rustflags=["--cfg", "aes_force_soft", "--cfg", "aes_compact", "--cfg", 'kuznyechik_backend="compact_soft"'], features=["hazmat", "bcrypt"]),
    "compact-z":        dict(rustflags=["--cfg", "aes_force_soft", "--cfg", "aes_compact", "--cfg", 'kuznyechik_backend="compact_soft"'], features=["zeroize", "hazmat", "bcrypt"]),
}

_built = {}


def build(cfg_id):
    """Returns the path of the driver binary for `cfg_id` (rebuilds incrementally)."""
    if cfg_id in _built:
        return _built[cfg_id]
    frozen = os.environ.get("VERIF_DRV_FROZEN")   # development only: use a pre-built driver
    if frozen and cfg_id == "default":
        return frozen
    c = CONFIGS[cfg_id]
    profile = c.get("profile", "dev")
    ws = alt_harness()
    tdir = os.path.join(ws, "target", "cfg-" + cfg_id)
    ensure_dir(tdir)
    cmd = ["cargo", "build", "--offline", "-q", "-p", "drv", "--target-dir", tdir]
    if profile == "release":
        cmd.append("--release")
    if c["features"]:
        cmd += ["--features", ",".join(c["features"])]
    flags = list(c["rustflags"])
    # silence unexpected-cfg lints for our own flags
    flags += ["--check-cfg", "cfg(block_ciphers_verif)", "-Awarnings"]
    env = {"CARGO_ENCODED_RUSTFLAGS": "\x1f".join(flags), "CARGO_NET_OFFLINE": "true"}
    lock = open(os.path.join(tdir, ".verif-lock"), "w")
    fcntl.flock(lock, fcntl.LOCK_EX)
    try:
        p = run(cmd, cwd=ws, env=env, timeout=1800, check=False)
    finally:
        fcntl.flock(lock, fcntl.LOCK_UN)
        lock.close()
    if p.returncode != 0:
        raise ToolError(f"build of configuration {cfg_id} failed:\n{(p.stdout or '')[-4000:]}")
    exe = os.path.join(tdir, "release" if profile == "release" else "debug", "drv")
    if not os.path.exists(exe):
        raise ToolError(f"driver binary missing for {cfg_id}")
    _built[cfg_id] = exe
    return exe


def drive(cfg_id, subcmd, out_path, timeout=600, **kw):
    """Run one driver sub-command; returns the trace path.  A driver that dies is a tool error here;
    C20 uses drive_may_die()."""
    exe = build(cfg_id)
    cmd = [exe, subcmd, "--out", out_path, "--cfg-id", cfg_id]
    for k, v in kw.items():
        cmd += ["--" + k.replace("_", "-"), str(v)]
    p = run(cmd, timeout=timeout, check=False)
    if p.returncode != 0:
        raise ToolError(f"driver {subcmd} ({cfg_id}) exited {p.returncode}: {(p.stdout or '')[-2000:]}")
    return out_path


def drive_may_die(cfg_id, subcmd, out_path, timeout=600, **kw):
    """Like drive(), but returns (path, returncode): an abort/signal is data for C20."""
    exe = build(cfg_id)
    cmd = [exe, subcmd, "--out", out_path, "--cfg-id", cfg_id]
    for k, v in kw.items():
        cmd += ["--" + k.replace("_", "-"), str(v)]
    p = run(cmd, timeout=timeout, check=False)
    return out_path, p.returncode


def build_tfz():
    """The stand-alone Threefish zeroize probe (threefish built with --no-default-features --features zeroize)."""
    if "tfz" in _built:
        return _built["tfz"]
    ws = alt_harness()
    tdir = ensure_dir(os.path.join(ws, "target", "cfg-tfz"))
    env = {"CARGO_ENCODED_RUSTFLAGS": "-Awarnings", "CARGO_NET_OFFLINE": "true"}
    p = run(["cargo", "build", "--offline", "-q", "-p", "tfz", "--target-dir", tdir], cwd=ws, env=env, timeout=1800, check=False)
    if p.returncode != 0:
        raise ToolError(f"build of tfz failed:\n{(p.stdout or '')[-3000:]}")
    _built["tfz"] = os.path.join(tdir, "debug", "tfz")
    return _built["tfz"]
