------------------------------ MODULE Conf_RC5 ------------------------------
EXTENDS RC5, Json, IOUtils
VARIABLES tpos, inst
Rec == ndJsonDeserialize(IOEnv.TRACE)
OSched(t, k, x) == RC5Sched(t, k, x)
OEnc(ks, b) == RC5Enc(ks, b)
ODec(ks, b) == RC5Dec(ks, b)
ExtraKinds == {}
INSTANCE ConfBase
=============================================================================
