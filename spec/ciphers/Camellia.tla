------------------------------ MODULE Camellia ------------------------------
(***************************************************************************)
(* Camellia (RFC 3713), written from the RFC.                              *)
(*                                                                         *)
(* A 64-bit quantity is the tuple of its 8 bytes, most significant first   *)
(* (so "t1 = x >> 56" is element 1, "t8 = x & MASK8" is element 8); a      *)
(* 128-bit quantity is 16 bytes, most significant first; "X >> 64" is      *)
(* Hi(X) and "X & MASK64" is Lo(X).  The 128-bit rotations of the subkey   *)
(* tables and the 32-bit "<<< 1" of FL/FLINV go through the 16-bit limb    *)
(* words of Words.tla.                                                     *)
(*                                                                         *)
(* SBOX1 is pinned as the 16x16 table of RFC 3713 section 2.4.1 (numbers   *)
(* copied from /repo/camellia/src/consts.rs, the only offline copy);       *)
(* SBOX2, SBOX3, SBOX4 are derived by the rules of the RFC.  Sigma1..6 are *)
(* pinned (section 2.2).  The P-function is the eight XOR equations of     *)
(* section 2.4.1; the subkeys are the tables of section 2.2.               *)
(*                                                                         *)
(* Known answers (spec/kat/Camellia.ndjson): ids 1-3 are RFC 3713          *)
(* Appendix A (128-, 192-, 256-bit key); the remaining vectors are random  *)
(* keys/blocks encrypted with OpenSSL 3.5 `openssl enc -camellia-N-ecb     *)
(* -nopad`.                                                                *)
(***************************************************************************)
EXTENDS Naturals, Sequences, Bitwise, TLC, Words

\* ---------------------------------------------------------------- S-boxes
\* SBOX1 as printed in RFC 3713 (row = high nibble, column = low nibble)
SBOX1Rows == <<
  <<112, 130,  44, 236, 179,  39, 192, 229, 228, 133,  87,  53, 234,  12, 174,  65>>,
  << 35, 239, 107, 147,  69,  25, 165,  33, 237,  14,  79,  78,  29, 101, 146, 189>>,
  <<134, 184, 175, 143, 124, 235,  31, 206,  62,  48, 220,  95,  94, 197,  11,  26>>,
  <<166, 225,  57, 202, 213,  71,  93,  61, 217,   1,  90, 214,  81,  86, 108,  77>>,
  <<139,  13, 154, 102, 251, 204, 176,  45, 116,  18,  43,  32, 240, 177, 132, 153>>,
  <<223,  76, 203, 194,  52, 126, 118,   5, 109, 183, 169,  49, 209,  23,   4, 215>>,
  << 20,  88,  58,  97, 222,  27,  17,  28,  50,  15, 156,  22,  83,  24, 242,  34>>,
  <<254,  68, 207, 178, 195, 181, 122, 145,  36,   8, 232, 168,  96, 252, 105,  80>>,
  <<170, 208, 160, 125, 161, 137,  98, 151,  84,  91,  30, 149, 224, 255, 100, 210>>,
  << 16, 196,   0,  72, 163, 247, 117, 219, 138,   3, 230, 218,   9,  63, 221, 148>>,
  <<135,  92, 131,   2, 205,  74, 144,  51, 115, 103, 246, 243, 157, 127, 191, 226>>,
  << 82, 155, 216,  38, 200,  55, 198,  59, 129, 150, 111,  75,  19, 190,  99,  46>>,
  <<233, 121, 167, 140, 159, 110, 188, 142,  41, 245, 249, 182,  47, 253, 180,  89>>,
  <<120, 152,   6, 106, 231,  70, 113, 186, 212,  37, 171,  66, 136, 162, 141, 250>>,
  <<114,   7, 185,  85, 248, 238, 172,  10,  54,  73,  42, 104,  60,  56, 241, 164>>,
  << 64,  40, 211, 123, 187, 201,  67, 193,  21, 227, 173, 244, 119, 199, 128, 158>> >>
SBOX1 == TLCEval([x \in 0..255 |-> SBOX1Rows[(x \div 16) + 1][(x % 16) + 1]])
SBOX2 == TLCEval([x \in 0..255 |-> RotL8(SBOX1[x], 1)])     \* SBOX1[x] <<< 1
SBOX3 == TLCEval([x \in 0..255 |-> RotL8(SBOX1[x], 7)])     \* SBOX1[x] <<< 7
SBOX4 == TLCEval([x \in 0..255 |-> SBOX1[RotL8(x, 1)]])     \* SBOX1[x <<< 1]
ASSUME {SBOX1[x] : x \in 0..255} = 0..255

\* -------------------------------------------------------- F-function (2.4.1)
X5(a, b, c, d, e)    == ((a ^^ b) ^^ (c ^^ d)) ^^ e
X6(a, b, c, d, e, f) == ((a ^^ b) ^^ (c ^^ d)) ^^ (e ^^ f)
F(fin, ke) ==
    LET x  == XorBytes(fin, ke)
        t1 == SBOX1[x[1]]  t2 == SBOX2[x[2]]  t3 == SBOX3[x[3]]  t4 == SBOX4[x[4]]
        t5 == SBOX2[x[5]]  t6 == SBOX3[x[6]]  t7 == SBOX4[x[7]]  t8 == SBOX1[x[8]]
    IN TLCEval(<< X6(t1, t3, t4, t6, t7, t8),     \* y1
                  X6(t1, t2, t4, t5, t7, t8),     \* y2
                  X6(t1, t2, t3, t5, t6, t8),     \* y3
                  X6(t2, t3, t4, t5, t6, t7),     \* y4
                  X5(t1, t2, t6, t7, t8),         \* y5
                  X5(t2, t3, t5, t7, t8),         \* y6
                  X5(t3, t4, t5, t6, t8),         \* y7
                  X5(t1, t4, t5, t6, t7) >>)      \* y8

\* ------------------------------------------------- FL and FLINV (2.4.2/3)
AndBytes(a, b) == TLCEval([i \in 1..Len(a) |-> a[i] & b[i]])
OrBytes(a, b)  == TLCEval([i \in 1..Len(a) |-> a[i] | b[i]])
NotBytes(a)    == TLCEval([i \in 1..Len(a) |-> 255 - a[i]])
Rol32(w, n)    == ToBE16(RotLW(65536, BE16(w), n))       \* 32-bit w <<< n, w = 4 bytes

FL(flin, ke) ==
    LET x1  == SubSeqB(flin, 1, 4)  x2 == SubSeqB(flin, 5, 8)
        k1  == SubSeqB(ke, 1, 4)    k2 == SubSeqB(ke, 5, 8)
        x2n == XorBytes(x2, Rol32(AndBytes(x1, k1), 1))
        x1n == XorBytes(x1, OrBytes(x2n, k2))
    IN Concat(x1n, x2n)
FLINV(flin, ke) ==
    LET y1  == SubSeqB(flin, 1, 4)  y2 == SubSeqB(flin, 5, 8)
        k1  == SubSeqB(ke, 1, 4)    k2 == SubSeqB(ke, 5, 8)
        y1n == XorBytes(y1, OrBytes(y2, k2))
        y2n == XorBytes(y2, Rol32(AndBytes(y1n, k1), 1))
    IN Concat(y1n, y2n)

\* ------------------------------------------------------ key schedule (2.2)
Sigma1 == <<160, 158, 102, 127,  59, 204, 144, 139>>   \* 0xA09E667F3BCC908B
Sigma2 == <<182, 122, 232,  88,  76, 170, 115, 178>>   \* 0xB67AE8584CAA73B2
Sigma3 == <<198, 239,  55,  47, 233,  79, 130, 190>>   \* 0xC6EF372FE94F82BE
Sigma4 == << 84, 255,  83, 165, 241, 211, 111,  28>>   \* 0x54FF53A5F1D36F1C
Sigma5 == << 16, 229,  39, 250, 222, 104,  45,  29>>   \* 0x10E527FADE682D1D
Sigma6 == <<176,  86, 136, 194, 179, 230, 193, 253>>   \* 0xB05688C2B3E6C1FD

Hi(x) == SubSeqB(x, 1, 8)        \* X >> 64
Lo(x) == SubSeqB(x, 9, 16)       \* X & MASK64
Rol128(x, n) == ToBE16(RotLW(65536, BE16(x), n))

\* KL, KR from the key
KLof(key) == SubSeqB(key, 1, 16)
KRof(key) ==
    IF Len(key) = 16 THEN Zeros(16)
    ELSE IF Len(key) = 24
      THEN LET r == SubSeqB(key, 17, 24) IN Concat(r, NotBytes(r))
    ELSE SubSeqB(key, 17, 32)

KAof(kl, kr) ==
    LET x   == XorBytes(kl, kr)
        d1a == Hi(x)
        d2a == Lo(x)
        d2b == XorBytes(d2a, F(d1a, Sigma1))
        d1b == XorBytes(d1a, F(d2b, Sigma2))
        d1c == XorBytes(d1b, Hi(kl))
        d2c == XorBytes(d2b, Lo(kl))
        d2d == XorBytes(d2c, F(d1c, Sigma3))
        d1d == XorBytes(d1c, F(d2d, Sigma4))
    IN Concat(d1d, d2d)
KBof(ka, kr) ==
    LET x   == XorBytes(ka, kr)
        d1a == Hi(x)
        d2a == Lo(x)
        d2b == XorBytes(d2a, F(d1a, Sigma5))
        d1b == XorBytes(d1a, F(d2b, Sigma6))
    IN Concat(d1b, d2b)

\* subkeys for 128-bit keys: kw1..kw4, k1..k18, ke1..ke4
Subkeys128(KL, KA) ==
    [ kw |-> << Hi(Rol128(KL, 0)),   Lo(Rol128(KL, 0)),       \* kw1 kw2
                Hi(Rol128(KA, 111)), Lo(Rol128(KA, 111)) >>,  \* kw3 kw4
      k  |-> << Hi(Rol128(KA, 0)),   Lo(Rol128(KA, 0)),       \* k1  k2
                Hi(Rol128(KL, 15)),  Lo(Rol128(KL, 15)),      \* k3  k4
                Hi(Rol128(KA, 15)),  Lo(Rol128(KA, 15)),      \* k5  k6
                Hi(Rol128(KL, 45)),  Lo(Rol128(KL, 45)),      \* k7  k8
                Hi(Rol128(KA, 45)),  Lo(Rol128(KL, 60)),      \* k9  k10
                Hi(Rol128(KA, 60)),  Lo(Rol128(KA, 60)),      \* k11 k12
                Hi(Rol128(KL, 94)),  Lo(Rol128(KL, 94)),      \* k13 k14
                Hi(Rol128(KA, 94)),  Lo(Rol128(KA, 94)),      \* k15 k16
                Hi(Rol128(KL, 111)), Lo(Rol128(KL, 111)) >>,  \* k17 k18
      ke |-> << Hi(Rol128(KA, 30)),  Lo(Rol128(KA, 30)),      \* ke1 ke2
                Hi(Rol128(KL, 77)),  Lo(Rol128(KL, 77)) >> ]  \* ke3 ke4

\* subkeys for 192- and 256-bit keys: kw1..kw4, k1..k24, ke1..ke6
Subkeys256(KL, KR, KA, KB) ==
    [ kw |-> << Hi(Rol128(KL, 0)),   Lo(Rol128(KL, 0)),       \* kw1 kw2
                Hi(Rol128(KB, 111)), Lo(Rol128(KB, 111)) >>,  \* kw3 kw4
      k  |-> << Hi(Rol128(KB, 0)),   Lo(Rol128(KB, 0)),       \* k1  k2
                Hi(Rol128(KR, 15)),  Lo(Rol128(KR, 15)),      \* k3  k4
                Hi(Rol128(KA, 15)),  Lo(Rol128(KA, 15)),      \* k5  k6
                Hi(Rol128(KB, 30)),  Lo(Rol128(KB, 30)),      \* k7  k8
                Hi(Rol128(KL, 45)),  Lo(Rol128(KL, 45)),      \* k9  k10
                Hi(Rol128(KA, 45)),  Lo(Rol128(KA, 45)),      \* k11 k12
                Hi(Rol128(KR, 60)),  Lo(Rol128(KR, 60)),      \* k13 k14
                Hi(Rol128(KB, 60)),  Lo(Rol128(KB, 60)),      \* k15 k16
                Hi(Rol128(KL, 77)),  Lo(Rol128(KL, 77)),      \* k17 k18
                Hi(Rol128(KR, 94)),  Lo(Rol128(KR, 94)),      \* k19 k20
                Hi(Rol128(KA, 94)),  Lo(Rol128(KA, 94)),      \* k21 k22
                Hi(Rol128(KL, 111)), Lo(Rol128(KL, 111)) >>,  \* k23 k24
      ke |-> << Hi(Rol128(KR, 30)),  Lo(Rol128(KR, 30)),      \* ke1 ke2
                Hi(Rol128(KL, 60)),  Lo(Rol128(KL, 60)),      \* ke3 ke4
                Hi(Rol128(KA, 77)),  Lo(Rol128(KA, 77)) >> ]  \* ke5 ke6

Subkeys(key) ==
    LET KL == KLof(key)
        KR == KRof(key)
        KA == KAof(KL, KR)
    IN IF Len(key) = 16 THEN Subkeys128(KL, KA)
       ELSE Subkeys256(KL, KR, KA, KBof(KA, KR))

\* decryption = encryption with kw1<->kw3, kw2<->kw4, k(i)<->k(n+1-i),
\* ke(i)<->ke(m+1-i)   (section 2.3.3)
Reversed(sk) ==
    [ kw |-> <<sk.kw[3], sk.kw[4], sk.kw[1], sk.kw[2]>>,
      k  |-> Rev(sk.k),
      ke |-> Rev(sk.ke) ]

\* ------------------------------------------------- data randomizing (2.3)
\* d = <<D1, D2>>; six Feistel rounds with k[b+1..b+6] (b a multiple of 6)
Six(d, k, b) ==
    LET d2a == XorBytes(d[2], F(d[1], k[b + 1]))
        d1a == XorBytes(d[1], F(d2a,  k[b + 2]))
        d2b == XorBytes(d2a,  F(d1a,  k[b + 3]))
        d1b == XorBytes(d1a,  F(d2b,  k[b + 4]))
        d2c == XorBytes(d2b,  F(d1b,  k[b + 5]))
        d1c == XorBytes(d1b,  F(d2c,  k[b + 6]))
    IN TLCEval(<<d1c, d2c>>)

\* group g = 0 .. ng-1 of six rounds, FL/FLINV between groups
RECURSIVE Groups(_, _, _, _)
Groups(sk, ng, g, d) ==
    LET e == Six(d, sk.k, 6 * g) IN
    IF g = ng - 1 THEN e
    ELSE Groups(sk, ng, g + 1,
                TLCEval(<<FL(e[1], sk.ke[2 * g + 1]), FLINV(e[2], sk.ke[2 * g + 2])>>))

Crypt(sk, m) ==
    LET d0 == <<XorBytes(Hi(m), sk.kw[1]), XorBytes(Lo(m), sk.kw[2])>>   \* prewhitening
        d  == Groups(sk, Len(sk.k) \div 6, 0, d0)
        d2 == XorBytes(d[2], sk.kw[3])                                   \* postwhitening
        d1 == XorBytes(d[1], sk.kw[4])
    IN Concat(d2, d1)                                                    \* C = (D2 << 64) | D1

\* ------------------------------------------------- conformance interface
CamelliaKeyLen(type) ==
    IF type = "Camellia128" THEN 16 ELSE IF type = "Camellia192" THEN 24 ELSE 32
CamelliaSched(type, key, extra) ==
    LET sk == TLCEval(Subkeys(key)) IN TLCEval([enc |-> sk, dec |-> Reversed(sk)])
CamelliaEnc(ks, in) == Crypt(ks.enc, in)
CamelliaDec(ks, in) == Crypt(ks.dec, in)
=============================================================================
