use super::*;
pub fn walk(_cx: &mut Ctx, _args: &Args, _rng: &mut Rng) -> i32 { 2 }
pub fn replay(_cx: &mut Ctx, _args: &Args, _rng: &mut Rng) -> i32 { 2 }
