-------------------------------- MODULE AES --------------------------------
(***************************************************************************)
(* FIPS-197 AES, byte level, written from the standard.  The state is the  *)
(* 16 input bytes in order (FIPS column-major: byte r + 4c is row r,       *)
(* column c).  The S-box is computed (GF(2^8) inverse + affine map), not   *)
(* transcribed.  InvCipher is the straight inverse cipher of section 5.3,  *)
(* not the equivalent inverse cipher the hardware backends use.            *)
(***************************************************************************)
EXTENDS Naturals, Sequences, Bitwise, TLC, Words, GF256

Poly == 283   \* x^8 + x^4 + x^3 + x + 1

AesInv == InvTab(Poly)
Affine(b) == ((b ^^ RotL8(b, 1)) ^^ (RotL8(b, 2) ^^ RotL8(b, 3))) ^^ (RotL8(b, 4) ^^ 99)
SBox    == TLCEval([x \in 0..255 |-> Affine(AesInv[x])])
InvSBox == InvPerm(SBox, 256)

M2 == MulTab(Poly, 2)   M3 == MulTab(Poly, 3)
M9 == MulTab(Poly, 9)   M11 == MulTab(Poly, 11)
M13 == MulTab(Poly, 13) M14 == MulTab(Poly, 14)

\* ---------------------------------------------------------------- layers
SubBytes(s)    == TLCEval([i \in 1..16 |-> SBox[s[i]]])
InvSubBytes(s) == TLCEval([i \in 1..16 |-> InvSBox[s[i]]])

\* 0-based helpers over the 1-based tuple
At(s, r, c) == s[r + 4 * c + 1]
ShiftRows(s) ==
    TLCEval([i \in 1..16 |-> LET r == (i - 1) % 4  c == (i - 1) \div 4
                             IN At(s, r, (c + r) % 4)])
InvShiftRows(s) ==
    TLCEval([i \in 1..16 |-> LET r == (i - 1) % 4  c == (i - 1) \div 4
                             IN At(s, r, (c + 4 - r) % 4)])

MixColumns(s) ==
    TLCEval([i \in 1..16 |->
        LET r == (i - 1) % 4  c == (i - 1) \div 4
            a0 == At(s, r, c)            a1 == At(s, (r + 1) % 4, c)
            a2 == At(s, (r + 2) % 4, c)  a3 == At(s, (r + 3) % 4, c)
        IN (M2[a0] ^^ M3[a1]) ^^ (a2 ^^ a3)])
InvMixColumns(s) ==
    TLCEval([i \in 1..16 |->
        LET r == (i - 1) % 4  c == (i - 1) \div 4
            a0 == At(s, r, c)            a1 == At(s, (r + 1) % 4, c)
            a2 == At(s, (r + 2) % 4, c)  a3 == At(s, (r + 3) % 4, c)
        IN (M14[a0] ^^ M11[a1]) ^^ (M13[a2] ^^ M9[a3])])

AddRoundKey(s, k) == XorBytes(s, k)

\* ---------------------------------------------------------- key expansion
\* words are 4-byte tuples; w[i] for i in 0..4*(Nr+1)-1 stored at index i+1
RECURSIVE RconR(_)
RconR(i) == IF i = 1 THEN 1 ELSE XTime(Poly, RconR(i - 1))
Rcon == TLCEval([i \in 1..14 |-> RconR(i)])

SubWord(w) == <<SBox[w[1]], SBox[w[2]], SBox[w[3]], SBox[w[4]]>>
RotWord(w) == <<w[2], w[3], w[4], w[1]>>

RECURSIVE ExpandFrom(_, _, _, _)
\* ws: words so far (1-based, ws[i+1] = w[i]); nk; total number of words wanted
ExpandFrom(ws, nk, total, i) ==
    IF i = total THEN ws
    ELSE LET prev == ws[i]            \* w[i-1]
             back == ws[i - nk + 1]   \* w[i-nk]
             t == IF i % nk = 0
                    THEN LET sw == SubWord(RotWord(prev))
                         IN <<sw[1] ^^ Rcon[i \div nk], sw[2], sw[3], sw[4]>>
                  ELSE IF nk > 6 /\ i % nk = 4 THEN SubWord(prev)
                  ELSE prev
             nw == TLCEval(<<back[1] ^^ t[1], back[2] ^^ t[2], back[3] ^^ t[3], back[4] ^^ t[4]>>)
         IN ExpandFrom(Append(ws, nw), nk, total, i + 1)

Nr(nk) == nk + 6
\* round keys: sequence of Nr+1 16-byte tuples
KeyExpansion(key) ==
    LET nk == Len(key) \div 4
        w0 == [i \in 1..nk |-> <<key[4*i - 3], key[4*i - 2], key[4*i - 1], key[4*i]>>]
        ws == ExpandFrom(w0, nk, 4 * (Nr(nk) + 1), nk)
    IN TLCEval([r \in 1..(Nr(nk) + 1) |-> ws[4*r - 3] \o ws[4*r - 2] \o ws[4*r - 1] \o ws[4*r]])

\* ------------------------------------------------------------- the cipher
\* One round of the state machine: (round number r in 1..Nr, state) -> state
EncRound(rk, nr, r, s) ==
    IF r < nr THEN AddRoundKey(MixColumns(ShiftRows(SubBytes(s))), rk[r + 1])
    ELSE AddRoundKey(ShiftRows(SubBytes(s)), rk[r + 1])
RECURSIVE EncFrom(_, _, _, _)
EncFrom(rk, nr, r, s) == IF r > nr THEN s ELSE EncFrom(rk, nr, r + 1, EncRound(rk, nr, r, s))
Cipher(rk, in) == LET nr == Len(rk) - 1 IN EncFrom(rk, nr, 1, AddRoundKey(in, rk[1]))

\* straight inverse cipher; round r counts down Nr-1 .. 0
DecRound(rk, r, s) ==
    IF r > 0 THEN InvMixColumns(AddRoundKey(InvSubBytes(InvShiftRows(s)), rk[r + 1]))
    ELSE AddRoundKey(InvSubBytes(InvShiftRows(s)), rk[1])
RECURSIVE DecFrom(_, _, _)
DecFrom(rk, r, s) == IF r < 0 THEN s ELSE DecFrom(rk, r - 1, DecRound(rk, r, s))
InvCipher(rk, in) == LET nr == Len(rk) - 1 IN DecFrom(rk, nr - 1, AddRoundKey(in, rk[nr + 1]))

\* --------------------------------------------------- hazmat round functions
CipherRound(block, key)         == AddRoundKey(MixColumns(ShiftRows(SubBytes(block))), key)
EquivInvCipherRound(block, key) == AddRoundKey(InvMixColumns(InvShiftRows(InvSubBytes(block))), key)

\* ------------------------------------------------- conformance interface
AESKeyLen(type) ==
    IF type \in {"Aes128", "Aes128Enc", "Aes128Dec"} THEN 16
    ELSE IF type \in {"Aes192", "Aes192Enc", "Aes192Dec"} THEN 24
    ELSE 32
AESSched(type, key, extra) == KeyExpansion(key)
AESEnc(ks, in) == Cipher(ks, in)
AESDec(ks, in) == InvCipher(ks, in)
=============================================================================
