------------------------------- MODULE Magma -------------------------------
(***************************************************************************)
(* GOST 28147-89 / GOST R 34.12-2015 "Magma" (RFC 8891), written from      *)
(* section 4-5 of the RFC (= section 5 of GOST R 34.12-2015).              *)
(*                                                                         *)
(*   V_32 words are tuples <<lo16, hi16>> (Words.tla, least significant    *)
(*   limb first).  A substitution set is the eight rows Pi'_0 .. Pi'_7 of  *)
(*   RFC 8891 section 4.1: row i acts on nibble i, nibble 0 being the      *)
(*   least significant nibble of the 32-bit word.                          *)
(*                                                                         *)
(*   t(a)        = Pi'_7(a_7) || ... || Pi'_0(a_0)             (4.2)       *)
(*   g[k](a)     = (t(a [+] k)) <<< 11                          (4.2)       *)
(*   G[k](a1,a0) = (a0, g[k](a0) (+) a1)                        (4.2)       *)
(*   G*[k](a1,a0)= (g[k](a0) (+) a1) || a0                      (4.2)       *)
(*   K_1..K_8 = the key split into eight big-endian words, K_{i+8} =       *)
(*   K_i (i = 1..16), K_{i+24} = K_{9-i} (i = 1..8)               (4.3)    *)
(*   E = G*[K_32] G[K_31] ... G[K_1],  D = G*[K_1] G[K_2] ... G[K_32] (5)  *)
(*                                                                         *)
(* All types of the family use the byte conventions of RFC 8891 (the       *)
(* 8-byte block is a_1 || a_0, both big-endian); the types differ only in  *)
(* the substitution set.                                                   *)
(*                                                                         *)
(* Pinned data: the rows of the substitution sets.  "Magma" is Pi' of RFC  *)
(* 8891 section 4.1 (id-tc26-gost-28147-param-Z); all rows are validated   *)
(* by the examples A.1 - A.4.  Gost89Test is id-GostR3411-94-TestParamSet  *)
(* (RFC 4357 11.2, '4E5764D1...'), Gost89CryptoProA/B/C/D are              *)
(* id-Gost28147-89-CryptoPro-{A,B,C,D}-ParamSet of RFC 4357 section 11.1   *)
(* ('93EEB31B...', '80E72850...', '10838CA7...', 'FB110831...').  Test, A, *)
(* B, C: numbers copied from /repo/magma/src/sboxes.rs and confirmed with  *)
(* libgcrypt 1.10.1 (independent implementation, gcry_cipher_set_sbox OIDs *)
(* 1.2.643.2.2.30.0, 1.2.643.2.2.31.1-3).  D: the crate's rows are a       *)
(* DIFFERENT set (the hash set 1.2.643.2.2.30.1); the rows of the real D   *)
(* set were decoded from libgcrypt's expanded table for OID                *)
(* 1.2.643.2.2.31.4 and agree with the RFC's hex string.  That the crate's *)
(* rows are the hash set was established with nettle/libgcrypt: their      *)
(* GOST R 34.11-94-CryptoPro table equals the crate's rows, and with it    *)
(* gosthash94cp("") = 981e5f3c...4cd656c0, the well-known digest.          *)
(*                                                                         *)
(* KAT sources (spec/kat/Magma.ndjson, see the "note" field of each line): *)
(*   RFC 8891 A.4/A.5 = GOST R 34.12-2015 A.2.4/A.2.5: the example block;  *)
(*   GOST R 34.13-2015 A.2.1 (ECB example for Magma): four blocks;         *)
(*   one block per non-Z set computed by libgcrypt 1.10.1 (cross-check of  *)
(*   the pinned rows, NOT a published vector; no published block-level     *)
(*   vectors of these sets in RFC 8891 byte order are available offline,   *)
(*   and /repo/magma/tests does not exist in the pinned tree);             *)
(*   RFC 8891 A.1, A.2, A.3 and the first rounds of A.4 are the ASSUMEs    *)
(*   at the end of this module (checked by TLC at every start).            *)
(***************************************************************************)
EXTENDS Naturals, Sequences, Bitwise, TLC, Words

\* ------------------------------------------------------- substitution sets
\* PiX[i + 1][v + 1] = Pi'_i(v)
PiTc26Z == <<
    <<12, 4, 6, 2, 10, 5, 11, 9, 14, 8, 13, 7, 0, 3, 15, 1>>,
    <<6, 8, 2, 3, 9, 10, 5, 12, 1, 14, 4, 7, 11, 13, 0, 15>>,
    <<11, 3, 5, 8, 2, 15, 10, 13, 14, 1, 7, 4, 12, 9, 6, 0>>,
    <<12, 8, 2, 1, 13, 4, 15, 6, 7, 0, 10, 5, 3, 14, 9, 11>>,
    <<7, 15, 5, 10, 8, 1, 6, 13, 0, 9, 3, 14, 11, 4, 2, 12>>,
    <<5, 13, 15, 6, 9, 2, 12, 10, 11, 7, 8, 1, 4, 3, 14, 0>>,
    <<8, 14, 2, 5, 6, 9, 1, 12, 15, 4, 11, 0, 13, 10, 3, 7>>,
    <<1, 7, 14, 13, 0, 5, 8, 3, 4, 15, 10, 6, 9, 12, 11, 2>> >>

PiTest == <<
    <<4, 10, 9, 2, 13, 8, 0, 14, 6, 11, 1, 12, 7, 15, 5, 3>>,
    <<14, 11, 4, 12, 6, 13, 15, 10, 2, 3, 8, 1, 0, 7, 5, 9>>,
    <<5, 8, 1, 13, 10, 3, 4, 2, 14, 15, 12, 7, 6, 0, 9, 11>>,
    <<7, 13, 10, 1, 0, 8, 9, 15, 14, 4, 6, 12, 11, 2, 5, 3>>,
    <<6, 12, 7, 1, 5, 15, 13, 8, 4, 10, 9, 14, 0, 3, 11, 2>>,
    <<4, 11, 10, 0, 7, 2, 1, 13, 3, 6, 8, 5, 9, 12, 15, 14>>,
    <<13, 11, 4, 1, 3, 15, 5, 9, 0, 10, 14, 7, 6, 8, 2, 12>>,
    <<1, 15, 13, 0, 5, 7, 10, 4, 9, 2, 3, 14, 6, 11, 8, 12>> >>

PiCryptoProA == <<
    <<9, 6, 3, 2, 8, 11, 1, 7, 10, 4, 14, 15, 12, 0, 13, 5>>,
    <<3, 7, 14, 9, 8, 10, 15, 0, 5, 2, 6, 12, 11, 4, 13, 1>>,
    <<14, 4, 6, 2, 11, 3, 13, 8, 12, 15, 5, 10, 0, 7, 1, 9>>,
    <<14, 7, 10, 12, 13, 1, 3, 9, 0, 2, 11, 4, 15, 8, 5, 6>>,
    <<11, 5, 1, 9, 8, 13, 15, 0, 14, 4, 2, 3, 12, 7, 10, 6>>,
    <<3, 10, 13, 12, 1, 2, 0, 11, 7, 5, 9, 4, 8, 15, 14, 6>>,
    <<1, 13, 2, 9, 7, 10, 6, 0, 8, 12, 4, 5, 15, 3, 11, 14>>,
    <<11, 10, 15, 5, 0, 12, 14, 8, 6, 2, 3, 9, 1, 7, 13, 4>> >>

PiCryptoProB == <<
    <<8, 4, 11, 1, 3, 5, 0, 9, 2, 14, 10, 12, 13, 6, 7, 15>>,
    <<0, 1, 2, 10, 4, 13, 5, 12, 9, 7, 3, 15, 11, 8, 6, 14>>,
    <<14, 12, 0, 10, 9, 2, 13, 11, 7, 5, 8, 15, 3, 6, 1, 4>>,
    <<7, 5, 0, 13, 11, 6, 1, 2, 3, 10, 12, 15, 4, 14, 9, 8>>,
    <<2, 7, 12, 15, 9, 5, 10, 11, 1, 4, 0, 13, 6, 8, 14, 3>>,
    <<8, 3, 2, 6, 4, 13, 14, 11, 12, 1, 7, 15, 10, 0, 9, 5>>,
    <<5, 2, 10, 11, 9, 1, 12, 3, 7, 4, 13, 0, 6, 15, 8, 14>>,
    <<0, 4, 11, 14, 8, 3, 7, 1, 10, 2, 9, 6, 15, 13, 5, 12>> >>

PiCryptoProC == <<
    <<1, 11, 12, 2, 9, 13, 0, 15, 4, 5, 8, 14, 10, 7, 6, 3>>,
    <<0, 1, 7, 13, 11, 4, 5, 2, 8, 14, 15, 12, 9, 10, 6, 3>>,
    <<8, 2, 5, 0, 4, 9, 15, 10, 3, 7, 12, 13, 6, 14, 1, 11>>,
    <<3, 6, 0, 1, 5, 13, 10, 8, 11, 2, 9, 7, 14, 15, 12, 4>>,
    <<8, 13, 11, 0, 4, 5, 1, 2, 9, 3, 12, 14, 6, 15, 10, 7>>,
    <<12, 9, 11, 1, 8, 14, 2, 4, 7, 3, 6, 5, 10, 0, 15, 13>>,
    <<10, 9, 6, 8, 13, 14, 2, 0, 15, 3, 5, 11, 4, 1, 12, 7>>,
    <<7, 4, 0, 5, 10, 2, 15, 14, 12, 6, 1, 11, 13, 9, 3, 8>> >>

\* id-Gost28147-89-CryptoPro-D-ParamSet, RFC 4357 section 11.1 (OID 1.2.643.2.2.31.4; the RFC's
\* hex string starts 'FB110831 C6C5C00A ...' = first entries, second entries ... of K1..K8).
\* NOT the rows called `CryptoProD` in /repo/magma/src/sboxes.rs: those are
\* id-GostR3411-94-CryptoProParamSet (OID 1.2.643.2.2.30.1, 'A57477D1 4FFA66E3 ...'), the set of the
\* GOST R 34.11-94 hash function (PiHashCryptoPro below, kept only to document the finding).
PiCryptoProD == <<
    <<15, 12, 2, 10, 6, 4, 5, 0, 7, 9, 14, 13, 1, 11, 8, 3>>,
    <<11, 6, 3, 4, 12, 15, 14, 2, 7, 13, 8, 0, 5, 10, 9, 1>>,
    <<1, 12, 11, 0, 15, 14, 6, 5, 10, 13, 4, 8, 9, 3, 7, 2>>,
    <<1, 5, 14, 12, 10, 7, 0, 13, 6, 2, 11, 4, 9, 3, 15, 8>>,
    <<0, 12, 8, 9, 13, 2, 10, 11, 7, 3, 6, 5, 4, 14, 15, 1>>,
    <<8, 0, 15, 3, 2, 5, 14, 11, 1, 10, 4, 7, 12, 9, 13, 6>>,
    <<3, 0, 6, 15, 1, 14, 9, 2, 13, 8, 12, 4, 11, 10, 5, 7>>,
    <<1, 10, 6, 8, 15, 11, 0, 4, 12, 3, 5, 9, 7, 13, 2, 14>> >>

\* id-GostR3411-94-CryptoProParamSet (what the Rust crate ships under the name CryptoProD)
PiHashCryptoPro == <<
    <<10, 4, 5, 6, 8, 1, 3, 7, 13, 12, 14, 0, 9, 2, 11, 15>>,
    <<5, 15, 4, 0, 2, 13, 11, 9, 1, 7, 6, 3, 12, 14, 10, 8>>,
    <<7, 15, 12, 14, 9, 4, 1, 0, 3, 11, 5, 2, 6, 10, 8, 13>>,
    <<4, 10, 7, 12, 0, 15, 2, 8, 14, 1, 6, 5, 13, 11, 9, 3>>,
    <<7, 6, 4, 11, 9, 12, 2, 10, 1, 8, 0, 14, 15, 13, 3, 5>>,
    <<7, 6, 2, 4, 13, 9, 15, 0, 10, 1, 5, 11, 8, 14, 12, 3>>,
    <<13, 14, 4, 1, 7, 0, 5, 10, 3, 12, 8, 15, 6, 2, 9, 11>>,
    <<1, 3, 10, 9, 5, 11, 4, 15, 8, 6, 7, 14, 13, 0, 2, 12>> >>

\* every pinned row is a permutation of 0..15
ASSUME \A set \in {PiTc26Z, PiTest, PiCryptoProA, PiCryptoProB, PiCryptoProC, PiCryptoProD, PiHashCryptoPro} :
          \A i \in 1..8 : {set[i][j] : j \in 1..16} = 0..15

\* a user-supplied set: 128 nibbles, row by row
PiFromBytes(x) == TLCEval([i \in 1..8 |-> [j \in 1..16 |-> x[16 * (i - 1) + j]]])

UserTypes == {"Gost89UserIdentity", "Gost89UserPerm", "Gost89UserNonBij"}

PiOf(type, x) ==
    IF Len(x) # 0 THEN PiFromBytes(x)
    ELSE CASE type = "Magma"            -> PiTc26Z
           [] type = "Gost89Test"       -> PiTest
           [] type = "Gost89CryptoProA" -> PiCryptoProA
           [] type = "Gost89CryptoProB" -> PiCryptoProB
           [] type = "Gost89CryptoProC" -> PiCryptoProC
           [] type = "Gost89CryptoProD" -> PiCryptoProD
    \* a user type without its table (or an unknown type) has no defined schedule: TLC error

\* ---------------------------------------------------------- transformations
\* four nibbles of one 16-bit limb; base = number of the limb's lowest nibble
T16(pi, base, a) ==
      pi[base + 1][(a % 16) + 1]
    + 16 * pi[base + 2][((a \div 16) % 16) + 1]
    + 256 * pi[base + 3][((a \div 256) % 16) + 1]
    + 4096 * pi[base + 4][(a \div 4096) + 1]

TSub(pi, a) == <<T16(pi, 0, a[1]), T16(pi, 4, a[2])>>

GFun(pi, k, a) == RotLW(65536, TSub(pi, AddW(65536, a, k)), 11)

\* the state is the pair <<a1, a0>>
GRound(pi, k, s)     == TLCEval(<<s[2], XorW(GFun(pi, k, s[2]), s[1])>>)
GStarRound(pi, k, s) == TLCEval(<<XorW(GFun(pi, k, s[2]), s[1]), s[2]>>)   \* a1' || a0, no swap

\* ------------------------------------------------------------ key schedule
\* K_1 .. K_32 from the 32 key bytes
IterKeys(key) ==
    LET K == [i \in 1..8 |-> BE16(SubSeqB(key, 4 * i - 3, 4 * i))]
    IN TLCEval([i \in 1..32 |-> IF i <= 24 THEN K[((i - 1) % 8) + 1] ELSE K[33 - i]])

\* -------------------------------------------------------------- the cipher
Split(in)  == <<BE16(SubSeqB(in, 1, 4)), BE16(SubSeqB(in, 5, 8))>>   \* <<a1, a0>>
Join(s)    == TLCEval(ToBE16(s[1]) \o ToBE16(s[2]))

\* E: apply G[K_i] for i = 1..31 then G*[K_32]
RECURSIVE EncFrom(_, _, _, _)
EncFrom(pi, rk, i, s) ==
    IF i = 32 THEN GStarRound(pi, rk[32], s) ELSE EncFrom(pi, rk, i + 1, GRound(pi, rk[i], s))
\* D: apply G[K_i] for i = 32..2 then G*[K_1]
RECURSIVE DecFrom(_, _, _, _)
DecFrom(pi, rk, i, s) ==
    IF i = 1 THEN GStarRound(pi, rk[1], s) ELSE DecFrom(pi, rk, i - 1, GRound(pi, rk[i], s))

Encrypt(pi, rk, in) == Join(EncFrom(pi, rk, 1, Split(in)))
Decrypt(pi, rk, in) == Join(DecFrom(pi, rk, 32, Split(in)))

\* ------------------------------------------------- conformance interface
MagmaSched(type, key, x) == [pi |-> PiOf(type, x), rk |-> IterKeys(key)]
MagmaEnc(ks, in) == Encrypt(ks.pi, ks.rk, in)
MagmaDec(ks, in) == Decrypt(ks.pi, ks.rk, in)

\* ---------------------------------------------- RFC 8891 appendix A examples
Hx(hi, lo) == W32(hi, lo)      \* a 32-bit word written as two 16-bit halves

\* A.1 transformation t
ASSUME TSub(PiTc26Z, Hx(64953, 30001)) = Hx(10777, 28468)   \* t(fdb97531) = 2a196f34
ASSUME TSub(PiTc26Z, Hx(10777, 28468)) = Hx(60377, 61498)   \* t(2a196f34) = ebd9f03a
ASSUME TSub(PiTc26Z, Hx(60377, 61498)) = Hx(45113, 47933)   \* t(ebd9f03a) = b039bb3d
ASSUME TSub(PiTc26Z, Hx(45113, 47933)) = Hx(26729, 21555)   \* t(b039bb3d) = 68695433

\* A.2 transformation g
ASSUME GFun(PiTc26Z, Hx(34661, 17185), Hx(65244, 47768)) = Hx(64971, 49676)  \* g[87654321](fedcba98) = fdcbc20c
ASSUME GFun(PiTc26Z, Hx(64971, 49676), Hx(34661, 17185)) = Hx(32377, 6731)   \* g[fdcbc20c](87654321) = 7e791a4b
ASSUME GFun(PiTc26Z, Hx(32377, 6731), Hx(64971, 49676)) = Hx(51045, 18924)   \* g[7e791a4b](fdcbc20c) = c76549ec
ASSUME GFun(PiTc26Z, Hx(51045, 18924), Hx(32377, 6731)) = Hx(38801, 51273)   \* g[c76549ec](7e791a4b) = 9791c849

\* A.3 key schedule of ffeeddccbbaa99887766554433221100f0f1f2f3f4f5f6f7f8f9fafbfcfdfeff
ExKey == <<255, 238, 221, 204, 187, 170, 153, 136, 119, 102, 85, 68, 51, 34, 17, 0,
           240, 241, 242, 243, 244, 245, 246, 247, 248, 249, 250, 251, 252, 253, 254, 255>>
ExK == <<Hx(65518, 56780), Hx(48042, 39304), Hx(30566, 21828), Hx(13090, 4352),
         Hx(61681, 62195), Hx(62709, 63223), Hx(63737, 64251), Hx(64765, 65279)>>
ASSUME LET rk == IterKeys(ExKey) IN
       /\ \A i \in 1..24 : rk[i] = ExK[((i - 1) % 8) + 1]       \* K_1..K_8 three times
       /\ \A i \in 1..8 : rk[24 + i] = ExK[9 - i]               \* then K_8..K_1

\* A.4 first rounds of the encryption of fedcba9876543210
ASSUME LET rk == IterKeys(ExKey)
           s0 == <<Hx(65244, 47768), Hx(30292, 12816)>>           \* (fedcba98, 76543210)
           s1 == GRound(PiTc26Z, rk[1], s0)
           s2 == GRound(PiTc26Z, rk[2], s1)
       IN /\ s1 = <<Hx(30292, 12816), Hx(10458, 15124)>>          \* (76543210, 28da3b14)
          /\ s2 = <<Hx(10458, 15124), Hx(45379, 14245)>>          \* (28da3b14, b14337a5)
=============================================================================
