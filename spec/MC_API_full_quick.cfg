SPECIFICATION Spec
CONSTANTS
  KeyIds = {1, 2, 3}
  ClassOf <- MCClassOf
  Blocks = {1, 2}
  Slots = {1, 2, 3}
  MaxOps = 100000
  Arms = {"hw", "soft"}
  Kinds = {"both", "enc", "dec"}
VIEW viewfull
INVARIANTS KeysMatch ArmStable KindShape Functional Inverse CanonAgreement Erased
CHECK_DEADLOCK FALSE
