------------------------------ MODULE Conf_AES ------------------------------
(***************************************************************************)
(* Conformance trace specification for the AES family: block events via    *)
(* ConfBase (C02) plus the hazmat round functions (C17).                   *)
(***************************************************************************)
EXTENDS AES, Json, IOUtils
VARIABLES tpos, inst
Rec == ndJsonDeserialize(IOEnv.TRACE)
OSched(t, k, x) == AESSched(t, k, x)
OEnc(ks, b) == AESEnc(ks, b)
ODec(ks, b) == AESDec(ks, b)
ExtraKinds == {"haz"}
INSTANCE ConfBase

HazFn(f, b, k) ==
    CASE f \in {"round", "round_par"} -> CipherRound(b, k)
      [] f \in {"inv_round", "inv_round_par"} -> EquivInvCipherRound(b, k)
      [] f = "mix" -> MixColumns(b)
      [] f = "inv_mix" -> InvMixColumns(b)

\* the 8-block parallel forms are eight independent single calls with the respective keys
Haz ==
    /\ IsEvent("haz")
    /\ LET e == Rec[tpos]
           n == Len(e.blocks)
       IN /\ e.outcome = "ok"
          /\ e.fn \in {"round", "round_par", "inv_round", "inv_round_par", "mix", "inv_mix"}
          /\ n = (IF e.fn \in {"round_par", "inv_round_par"} THEN 8 ELSE 1)
          /\ Len(e.keys) = n /\ Len(e.out) = n
          /\ \A j \in 1..n : e.out[j] = HazFn(e.fn, e.blocks[j], e.keys[j])
    /\ UNCHANGED inst

XNext == Next \/ Haz
XSpec == Init /\ [][XNext]_vars
=============================================================================
