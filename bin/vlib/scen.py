"""spec -> impl: turn the scenarios TLC printed (one per transition of the bounded model: shortest path to the
source state + that edge) into a scenario file for the replay drivers."""
import json, random, re
from .common import *


def parse(out):
    scens = []
    for m in re.finditer(r'<<"SCEN", "(.*?)">>', out):
        s = m.group(1).encode().decode("unicode_escape")
        try:
            scens.append(json.loads(s))
        except ValueError:
            continue
    return scens


def extract(tlc_out, path, limit, seed, to_driver=None):
    """Write at most `limit` scenarios (seeded, stratified by the kind of the last edge so that every action of the
    model is represented) as NDJSON.  Returns the number written."""
    scens = parse(tlc_out)
    if not scens:
        raise ToolError("TLC printed no scenarios (EmitScenario action constraint missing?)")
    # unique
    seen, uniq = set(), []
    for s in scens:
        k = json.dumps(s, sort_keys=True)
        if k not in seen:
            seen.add(k)
            uniq.append(s)
    rnd = random.Random(seed)
    by_last = {}
    for s in uniq:
        last = s[-1]
        if isinstance(last, dict):
            key = (last.get("op"), last.get("kind"), last.get("to"), last.get("by"), last.get("arm"), len(s))
        else:
            key = (tuple(last), len(s))
        by_last.setdefault(key, []).append(s)
    chosen = []
    groups = sorted(by_last.items(), key=lambda kv: str(kv[0]))
    # round-robin over the strata, longest scenarios first inside each
    for g in groups:
        rnd.shuffle(g[1])
    i = 0
    while len(chosen) < min(limit, len(uniq)):
        progressed = False
        for _, g in groups:
            if i < len(g) and len(chosen) < limit:
                chosen.append(g[i])
                progressed = True
        if not progressed:
            break
        i += 1
    with open(path, "w") as f:
        for s in chosen:
            f.write(json.dumps(to_driver(s) if to_driver else s) + "\n")
    return len(chosen)
