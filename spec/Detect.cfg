SPECIFICATION Spec
CONSTANTS
  Threads = {1, 2, 3}
  MaxInst = 3
  Cpu = "yes"
INVARIANTS StorageMonotone ArmStable OneArm
CHECK_DEADLOCK FALSE
