------------------------------- MODULE MC_API -------------------------------
EXTENDS BlockCipherAPI
\* two key classes; spelling 3 is canonically equivalent to spelling 1 (e.g. DES parity, padded Serpent key)
MCClassOf == (1 :> "c1") @@ (2 :> "c2") @@ (3 :> "c1")
=============================================================================
